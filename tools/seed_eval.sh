#!/bin/sh
# tools/seed_eval.sh Cxx [check ids...] — verify a sub-agent's change in /tmp/seed/Cxx and run our checks against it
id=$1; shift
d=/tmp/seed/$id
cd $d || exit 2
git diff --stat -- prosemirror | tail -1
echo "== tests with change:"; /venv/bin/python -m pytest -q -p no:cacheprovider 2>&1 | tail -1
echo "== demo with change:"; /venv/bin/python demo_$id.py >/dev/null 2>&1; echo "exit=$?"
git stash -q; echo "== demo without change:"; /venv/bin/python demo_$id.py >/dev/null 2>&1; echo "exit=$?"; git stash pop -q
cd /verif
for c in ${@:-$id}; do
  for seed in 1 2; do
  echo "== ./check $c quick against the change (VERIF_SEED=$seed):"
  VERIF_SEED=$seed PM_REPO=$d PMVERIF_EVIDENCE_DIR=/tmp/seed/ev timeout 1200 ./check $c quick 2>&1 | grep -v "^  File\|Recursion\|^    \|Exception ignored\|^Traceback\|KNOWN" | cut -c1-400 | tail -3
  done
done
