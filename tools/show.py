#!/usr/bin/env python3
"""tools/show.py replay.json... — compact view of a replay case"""
import json, sys
def show(p):
    if p['t']=='text': return repr(p['x'])+(''.join('['+m[0]+(json.dumps(m[1]) if m[1] else '')+']' for m in p['m']))
    a=''.join(f"{{{k}={v}}}" for k,v in p['a'].items() if v is not None)
    m=''.join('['+x[0]+']' for x in p['m'])
    return p['t']+a+m+('('+','.join(show(k) for k in p['c'])+')' if p['c'] else '')
def walk(o):
    if isinstance(o,dict):
        if set(o)>= {'t','a','m','x','c'}: return show(o)
        if set(o)=={'c','os','oe'}: return '<'+','.join(show(x) for x in o['c'])+f">({o['os']},{o['oe']})"
        return {k:walk(v) for k,v in o.items()}
    if isinstance(o,list): return [walk(x) for x in o]
    return o
for f in sys.argv[1:]:
    d=json.load(open(f))
    print(f); print(' ',d['clause'], '|', d['message'][:400])
    c=d['case']
    if isinstance(c.get('schema'),dict): print('  SCHEMA', json.dumps(c['schema'])[:700]); c=dict(c); c['schema']='<random>'
    print('  ', json.dumps(walk(c), ensure_ascii=False)[:1500])
