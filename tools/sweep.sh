#!/bin/sh
# tools/sweep.sh [tier]  — run every registered check once, print a summary table
tier=${1:-quick}
cd "$(dirname "$0")/.."
for i in 01 02 03 04 05 06 07 08 09 10 11 12 13 14 15 16 17 18 19 20; do
  start=$(date +%s)
  out=$(timeout 1500 ./check C$i $tier 2>&1); rc=$?
  end=$(date +%s)
  viol=$(echo "$out" | grep -c '^VIOLATION')
  known=$(echo "$out" | grep -c '^KNOWN-FINDING')
  harn=$(echo "$out" | grep -c 'HARNESS ERROR')
  line=$(echo "$out" | grep "^C$i $tier:" | tail -1)
  echo "C$i rc=$rc viol=$viol known=$known harness=$harn $((end-start))s | $line"
done
