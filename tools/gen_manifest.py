#!/venv/bin/python
"""Regenerate MANIFEST.json from the property modules that exist (run from /verif)."""
import importlib
import json
import os
import sys

HERE = os.path.dirname(os.path.dirname(os.path.abspath(__file__)))
sys.path.insert(0, HERE)
os.chdir(HERE)
from pmverif import env  # noqa: E402

env.bootstrap()

props = [json.loads(l) for l in open("properties.jsonl")]
checks = []
na = []
for p in props:
    pid = p["id"]
    path = f"pmverif/props/{pid.lower()}.py"
    if not os.path.exists(path):
        na.append({"property_id": pid, "reason": "check not built yet (work in progress, see DESIGN.md section 8); the technique applies"})
        continue
    mod = importlib.import_module(f"pmverif.props.{pid.lower()}")
    if getattr(mod, "NOT_REGISTERED", None):
        na.append({"property_id": pid, "reason": mod.NOT_REGISTERED})
        continue
    checks.append({
        "property_id": pid,
        "quick_cmd": f"./check {pid} quick",
        "thorough_cmd": f"./check {pid} thorough",
        "evidence_file": f"evidence/{pid}.json",
        "replay_cmd_template": f"./check {pid} --replay {{path}}",
        "engine": "pmverif",
        "level_claimed": {
            "category": "exploration",
            "text": mod.LEVEL_TEXT,
            "design_ref": f"DESIGN.md section 4, {pid}",
        },
        "level_note": mod.LEVEL_NOTE,
        "technique": mod.TECHNIQUE,
    })
manifest = {
    "version": 1,
    "setup_cmd": "./setup.sh",
    "hooks": {
        "guard": "FELLOWAPP_PROSEMIRROR_PY_VERIF",
        "enable": "no source hooks are needed: checks import the working tree of /repo (PM_REPO overrides) ahead of any installed copy; the guard variable is set by ./check but nothing in /repo reads it",
        "baseline_off_cmd": "cd /repo && /venv/bin/python -m pytest -ra -q -p no:cacheprovider --timeout=900 --continue-on-collection-errors",
        "source_commits": [],
        "add_only": True,
    },
    "engines": [{
        "name": "pmverif",
        "path": "pmverif/",
        "serves_properties": [c["property_id"] for c in checks],
        "kind_free_text": "property-based testing: Hypothesis-driven generators (sharded over processes, seeded from VERIF_SEED) and exhaustive enumeration of small finite domains, judged by reference models that share no code with the library (flat token sequences, Brzozowski-derivative content expressions, mark algebra, step-map arithmetic); failures shrink to JSON replay files",
    }],
    "checks": checks,
    "not_applicable": na,
    "notes": "Genuine defects found by these checks were repaired in /repo as separate 'fix:' commits and are listed as 'fixed' in known_findings.json (open entries print KNOWN-FINDING). regress/<id>/*.json are the shrunk failing inputs, replayed first by every run. Exit code 2 = harness error, never a verdict.",
}
json.dump(manifest, open("MANIFEST.json", "w"), indent=1)
print(f"MANIFEST.json: {len(checks)} checks, {len(na)} not claimed")
