#!/usr/bin/env python3
"""tools/seed_matrix.py [seeds...]  (default seeds: 1 2 3)

Detection matrix: every stored seeded change (seeded/<name>/patch.diff) x VERIF_SEED value.  For each change a scratch
copy of /repo's tracked tree is made under /tmp (never /repo itself), the patch applied, `./check <property> quick`
run with PM_REPO=<copy> for every seed, the copy deleted.  Writes seeded/matrix.json and prints a table.
Not a registered check (it tests the checks, not the library).
"""
import json
import os
import shutil
import subprocess
import sys
import tempfile

VERIF = os.path.dirname(os.path.dirname(os.path.abspath(__file__)))


def main() -> int:
    seeds = [int(x) for x in sys.argv[1:] if x.isdigit()] or [1, 2, 3]
    only = [x for x in sys.argv[1:] if not x.isdigit()]
    names = sorted(d for d in os.listdir(os.path.join(VERIF, "seeded")) if os.path.isfile(os.path.join(VERIF, "seeded", d, "patch.diff")))
    if only:
        names = [n for n in names if n in only]
    out = {}
    path = os.path.join(VERIF, "seeded", "matrix.json")
    if os.path.exists(path) and only:
        out = json.load(open(path))
    for name in names:
        meta = json.load(open(os.path.join(VERIF, "seeded", name, "meta.json")))
        prop = meta["property"]
        tmp = tempfile.mkdtemp(prefix="pmseed-", dir="/tmp")
        try:
            subprocess.run(f"git -C /repo archive HEAD | tar -x -C {tmp}", shell=True, check=True)
            a = subprocess.run(["git", "apply", "--unsafe-paths", f"--directory={tmp}", os.path.join(VERIF, "seeded", name, "patch.diff")], capture_output=True, text=True, cwd="/")
            if a.returncode != 0:
                a = subprocess.run(["patch", "-p1", "-s", "-i", os.path.join(VERIF, "seeded", name, "patch.diff")], cwd=tmp, capture_output=True, text=True)
            if a.returncode != 0:
                out[name] = {"property": prop, "error": "patch does not apply: " + (a.stderr or a.stdout)[:200]}
                print(name, "PATCH DOES NOT APPLY")
                continue
            row = {}
            for s in seeds:
                env = dict(os.environ, PM_REPO=tmp, PMVERIF_EVIDENCE_DIR=os.path.join(tmp, "ev"), VERIF_SEED=str(s))
                c = subprocess.run([os.path.join(VERIF, "check"), prop, "quick"], cwd=VERIF, capture_output=True, text=True, env=env)
                clause = ""
                for line in (c.stdout + c.stderr).splitlines():
                    if line.strip().startswith("clause="):
                        clause = line.strip()[7:90]
                        break
                row[str(s)] = {"exit": c.returncode, "clause": clause}
                # replays written while testing a patched copy are not findings about /repo
                for line in c.stdout.splitlines():
                    if line.startswith("VIOLATION") and "replay=" in line:
                        rp = line.split("replay=")[1].strip()
                        if os.path.isfile(rp) and "/replays/" in rp:
                            os.remove(rp)
            out[name] = {"property": prop, "runs": row}
            print(name, prop, " ".join(f"seed{s}:{'caught' if row[str(s)]['exit'] == 1 else 'MISSED' if row[str(s)]['exit'] == 0 else 'ERR'}" for s in seeds), flush=True)
        finally:
            shutil.rmtree(tmp, ignore_errors=True)
        json.dump(out, open(path, "w"), indent=1, sort_keys=True)
    missed = [(n, s) for n, r in out.items() for s, v in r.get("runs", {}).items() if v["exit"] != 1]
    print(f"{len(out)} changes, {len(missed)} (change, seed) runs not caught: {missed}")
    return 0


if __name__ == "__main__":
    sys.exit(main())
