#!/usr/bin/env python3
"""tools/add_fixed.py <property> <commit> <id> <what failed> [regress file]  — append a 'fixed' entry."""
import json, sys
prop, commit, fid, what = sys.argv[1:5]
reg = sys.argv[5] if len(sys.argv) > 5 else None
p = "/verif/known_findings.json"
d = json.load(open(p))
d["findings"].append({
    "id": fid, "property": prop, "status": "fixed", "commit": commit, "title": what,
    "line": f"fixed: property={prop} {commit} {what}", "regress": reg,
})
json.dump(d, open(p, "w"), indent=1)
print("ok", len(d["findings"]))
