#!/bin/sh
# tools/seed_check.sh <name> [check ids...] — apply seeded/<name>/patch.diff to a fresh worktree of /repo HEAD and run checks against it
name=$1; shift
d=/tmp/seedcur-$name
git -C /repo worktree remove --force $d 2>/dev/null
git -C /repo worktree add -q --detach $d HEAD || exit 2
if ! git -C $d apply /verif/seeded/$name/patch.diff; then echo "PATCH DOES NOT APPLY"; git -C /repo worktree remove --force $d; exit 2; fi
(cd $d && /venv/bin/python -m pytest -q -p no:cacheprovider 2>&1 | tail -1)
for demo in /verif/seeded/$name/demo_*.py; do cp $demo $d/; (cd $d && /venv/bin/python $(basename $demo) >/dev/null 2>&1; echo "demo exit=$?"); done
prop=$(python3 -c "import json;print(json.load(open('/verif/seeded/$name/meta.json'))['property'])")
cd /verif
for c in ${@:-$prop}; do
  PM_REPO=$d PMVERIF_EVIDENCE_DIR=/tmp/seed/ev timeout 1500 ./check $c quick 2>&1 | grep "^VIOLATION\|^  clause\|^$c quick" | cut -c1-260 | head -5
done
git -C /repo worktree remove --force $d
