#!/usr/bin/env python3
"""tools/seed_table.py — markdown table of all seeded changes (for DESIGN.md §9.6) from seeded/*/meta.json"""
import json, os, re
root = os.path.join(os.path.dirname(os.path.dirname(os.path.abspath(__file__))), "seeded")
rows = []
for name in sorted(os.listdir(root)):
    mp = os.path.join(root, name, "meta.json")
    if not os.path.exists(mp):
        continue
    m = json.load(open(mp))
    v = m["verified"]
    missed = "MISSED" in v
    if missed:
        after = v.split("after", 1)[1] if "after" in v else v
        out = "**missed** → caught after" + after.split("->")[0].rstrip()
        first = re.search(r"MISSED by [^(]*\(([^)]*)\)", v)
        if first:
            out = f"**missed** ({first.group(1)}) → caught after" + after.split("->")[0].rstrip()
    else:
        cl = re.findall(r"VIOLATION\s*\(?([a-z_:\- /A-Za-z]+)", v)
        out = "caught" + (f" (`{cl[0].strip()}`)" if cl else "")
    needs = m["needs_to_manifest"].replace("|", "\\|")
    rows.append((name, m["property"], needs, out.replace("|", "\\|")))
print("| Change | Property | Needs, in order to manifest | `./check <property> quick` |")
print("|---|---|---|---|")
for r in rows:
    print("| " + " | ".join(r) + " |")
n = len(rows); k = sum(1 for r in rows if r[3].startswith("**missed"))
print(f"\n{n} changes; {n-k} caught by the first run of the quick tier, {k} missed at first and caught after a generator (or invariant) extension.")
