#!/usr/bin/env python3
"""tools/seed_save.py Cxx '<what it needs to manifest>' '<what we ran / result>' [name]"""
import json, os, subprocess, sys
pid, needs, ran = sys.argv[1:4]
name = sys.argv[4] if len(sys.argv) > 4 else pid
src = f"/tmp/seed/{pid}" if len(sys.argv) <= 5 else sys.argv[5]
dst = f"/verif/seeded/{name}"
os.makedirs(dst, exist_ok=True)
diff = subprocess.run(["git", "-C", src, "diff", "--", "prosemirror"], capture_output=True, text=True).stdout
open(f"{dst}/patch.diff", "w").write(diff)
demo = [f for f in os.listdir(src) if f.startswith("demo_")]
for f in demo:
    open(f"{dst}/{f}", "w").write(open(f"{src}/{f}").read())
json.dump({"property": pid, "breaks": pid, "needs_to_manifest": needs, "verified": ran,
           "base_commit": subprocess.run(["git", "-C", src, "rev-parse", "--short", "HEAD"], capture_output=True, text=True).stdout.strip(),
           "origin": "written by an independent sub-agent given only the property text and a scratch worktree"},
          open(f"{dst}/meta.json", "w"), indent=1)
print("saved", dst, len(diff), "bytes of diff", demo)
