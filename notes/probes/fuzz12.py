import sys, random, collections, traceback, warnings, signal
warnings.simplefilter("ignore")
src=open("/root/scratch/fuzz4.py").read().split("def _al")[0]
exec(src)
from prosemirror.transform.structure import NodeTypeWithAttrs
ZOO["list"]=mk(ln)
ZOO["table"]=mk({**ln,"table":{"group":"block","content":"row+"},"row":{"content":"cell+"},"cell":{"content":"block+","isolating":True}})
def _al(*a): raise TimeoutError("hang")
signal.signal(signal.SIGALRM,_al)
rng=random.Random(int(sys.argv[1])); N=int(sys.argv[2]); C=collections.Counter(); ex={}
def note(k,info):
    C[k]+=1
    if k not in ex or len(info)<len(ex[k]): ex[k]=info
def leafs(n):
    out=[]
    def rec(x):
        for c in x.content.content:
            if c.is_text: out.extend(("c",ch,tuple(m.type.name for m in c.marks)) for ch in c.text)
            elif c.is_leaf: out.append(("l",c.type.name,str(c.attrs)))
            else: rec(c)
    rec(n); return out
def perform(name,S,d,label,f,info,keep_leaf=True):
    try:
        signal.alarm(3); tr=f(); signal.alarm(0)
        tr.doc.check()
        if keep_leaf and leafs(tr.doc)!=leafs(d): note((name,label,"LEAFSEQ"),info+f" -> {tr.doc}")
        else: C[(name,label,"ok")]+=1
    except BaseException as e:
        signal.alarm(0)
        tb=traceback.extract_tb(e.__traceback__)[-1]
        note((name,label,"FAIL",type(e).__name__,tb.name,str(e)[:45]),info)
def helper(name,label,f,info):
    try:
        signal.alarm(3); r=f(); signal.alarm(0); return r
    except BaseException as e:
        signal.alarm(0)
        tb=traceback.extract_tb(e.__traceback__)[-1]
        note((name,label,"HELPER-CRASH",type(e).__name__,tb.name,tb.lineno,str(e)[:45]),info); return None
for name,S in ZOO.items():
  if name in ("fixed",): continue
  containers=[t for t in S.nodes.values() if not t.is_leaf and not t.inline_content and t.name!="doc"]
  for n in range(N):
    d=rdoc(rng,S); size=d.content.size
    for pos in range(size+1):
        info=f"{d} @{pos}"
        for depth in (1,2,3):
            if helper(name,"can_split",lambda: can_split(d,pos,depth),info+f" depth{depth}"):
                perform(name,S,d,"split",lambda: Transform(d).split(pos,depth),info+f" depth{depth}")
        if helper(name,"can_join",lambda: can_join(d,pos),info): perform(name,S,d,"join",lambda: Transform(d).join(pos),info)
        for dr in (-1,1):
            jp=helper(name,"join_point",lambda: join_point(d,pos,dr),info+f" dir{dr}")
            if jp is not None:
                if not (0<=jp<=size): note((name,"join_point","RANGE"),info)
                else: perform(name,S,d,"join@jp",lambda: Transform(d).join(jp),info+f" dir{dr} jp{jp}")
        for t in S.nodes.values():
            ip=helper(name,"insert_point",lambda: insert_point(d,pos,t),info+f" {t.name}")
            if ip is not None:
                if t.is_text: node=S.text("Z")
                else:
                    attrs={k:"v" for k,a in t.attrs.items() if a.is_required}
                    node=t.create_and_fill(attrs or None)
                if node is None: continue
                def ins():
                    tr=Transform(d); tr.step(ReplaceStep(ip,ip,Slice(Fragment.from_(node),0,0))); return tr
                perform(name,S,d,"insert@ip",ins,info+f" {t.name} ip{ip}",keep_leaf=False)
    # ranges
    for _ in range(6):
        a=rng.randint(0,size); b=rng.randint(a,size)
        r=d.resolve(a).block_range(d.resolve(b))
        if r is None: continue
        info=f"{d} range {a}-{b} ({r.start},{r.end},{r.depth})"
        lt=helper(name,"lift_target",lambda: lift_target(r),info)
        if lt is not None: perform(name,S,d,"lift",lambda: Transform(d).lift(r,lt),info+f" target{lt}")
        for t in containers:
            attrs={k:"v" for k,a_ in t.attrs.items() if a_.is_required}
            w=helper(name,"find_wrapping",lambda: find_wrapping(r,t,attrs or None),info+f" {t.name}")
            if w is not None: perform(name,S,d,"wrap",lambda: Transform(d).wrap(r,w),info+f" wrap {t.name} {[x.type.name for x in w]}")
    # drop point
    src_=rdoc(rng,S)
    for _ in range(4):
        sa=rng.randint(0,src_.content.size); sb=rng.randint(sa,src_.content.size); sl=src_.slice(sa,sb)
        pos=rng.randint(0,size); info=f"{d} @{pos} drop {sl}"
        dp=helper(name,"drop_point",lambda: drop_point(d,pos,sl),info)
        if dp is not None:
            if not (0<=dp<=size): note((name,"drop_point","RANGE"),info)
            else: perform(name,S,d,"drop",lambda: Transform(d).replace(dp,dp,sl),info+f" dp{dp}",keep_leaf=False)
for k,v in sorted(C.items(), key=lambda kv:(kv[0][0],str(kv[0][1:]))): 
    if k[2]=="ok": print(v,k)
    else: print(v,k,"\n    ",ex.get(k,"")[:420])
