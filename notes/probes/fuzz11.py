import sys, random, collections, traceback
sys.path.insert(0,"/root/scratch")
from gen import *
from prosemirror.transform import Transform
rng=random.Random(int(sys.argv[1]))
buckets=collections.Counter(); ex={}
N=int(sys.argv[2])
for n in range(N):
    d=rand_doc(rng); src=rand_doc(rng)
    size=d.content.size
    a=rng.randint(0,size); b=rng.randint(a,size)
    sa=rng.randint(0,src.content.size); sb=rng.randint(sa,src.content.size)
    try: sl=src.slice(sa,sb)
    except ValueError: continue
    op=rng.choice(["replace","delete","replace_range","delete_range"])
    try:
        tr=Transform(d)
        if op=="replace": tr.replace(a,b,sl)
        elif op=="delete": tr.delete(a,b)
        elif op=="replace_range": tr.replace_range(a,b,sl)
        else: tr.delete_range(a,b)
        try: tr.doc.check()
        except Exception as e:
            k=("INVALID",op,str(e)[:40]); buckets[k]+=1; ex.setdefault(k,(str(d),a,b,str(sl)))
    except Exception as e:
        tb=traceback.extract_tb(e.__traceback__)[-1]
        k=(type(e).__name__,op,tb.name,tb.lineno,str(e)[:50]); buckets[k]+=1
        if k not in ex or len(str(d))<len(ex[k][0]): ex[k]=(str(d),a,b,str(sl))
for k,v in buckets.most_common(): print(v,k,"\n    ",ex[k])
print("total",N)
