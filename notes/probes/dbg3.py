import sys, warnings; warnings.simplefilter("ignore")
sys.argv=["x","1","0"]
exec(open("/root/scratch/fuzz3.py").read().split("rng=random.Random")[0])
def n(t,*c,**a): return S.node(t,a or None,list(c))
t=S.text
em=S.mark("em"); strong=S.mark("strong"); code=S.mark("code")
d=n("doc", n("paragraph"), n("paragraph", n("hard_break"), S.text(" b ",[em,code])),
  n("blockquote", n("table", n("row", n("cell", n("paragraph", t("  b"), S.text("b",[strong])), n("code_block", t("  aabb")))),
                                n("row", n("cell", n("code_block"), n("paragraph", S.text("c",[em])))))))
print(d, d.content.size)
for pos in (27,34):
    r=d.resolve(pos); print(pos, "depth",r.depth, [r.node(i).type.name for i in range(r.depth+1)], "parent_offset", r.parent_offset)
sl=Slice(Fragment.from_(n("ordered_list", n("list_item", n("paragraph", t("cbbcb"))))),0,0)
tr=Transform(d).replace(27,34,sl)
print(tr.doc); print([s.to_json() for s in tr.steps])
# simpler
d2=n("doc", n("table", n("row", n("cell", n("paragraph", t("ab")))), n("row", n("cell", n("paragraph", t("cd"))))))
print(d2, d2.content.size)
for a in range(d2.content.size+1):
  for b in range(a,d2.content.size+1):
    fa=d2.resolve(a); fb=d2.resolve(b)
    if fa.depth>=1 and fb.depth>=1:
        tr=Transform(d2).replace(a,b,sl)
        T=toks(d2); T1=toks(tr.doc)
        # table is node at depth1
        bN=0; aN=d2.content.size
        if not (T1[0]==T[0] and T1[-1]==T[-1] and tr.doc.child_count==1): print("LEAK",a,b,tr.doc)
