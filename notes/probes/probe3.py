import sys, random, collections; sys.path.insert(0,"/root/scratch")
import gen as G
from gen import *
def rand_inline(rng, marks_ok=True, text_only=False):
    out=[]
    for _ in range(rng.randint(0,3)):
        r=rng.random()
        if r<0.75 or text_only:
            out.append(schema.text("".join(rng.choice("ab") for _ in range(rng.randint(1,3))), G.rand_marks(rng) if marks_ok else None))
        elif r<0.9: out.append(schema.node("hard_break"))
        else: out.append(schema.node("image",{"src":"i.png"}))
    return Fragment.from_(out)
G.rand_inline=rand_inline
# crude token model
def toks(frag):
    out=[]
    for n in frag.content:
        if n.is_text:
            for ch in n.text: out.append(("c",ch,tuple((m.type.name,str(m.attrs)) for m in n.marks)))
        elif n.is_leaf: out.append(("l",n.type.name,str(n.attrs)))
        else:
            out.append(("o",n.type.name,str(n.attrs))); out+=toks(n.content); out.append(("x",))
    return out
rng=random.Random(7); C=collections.Counter()
for i in range(20000):
    d=rand_doc(rng); s=rand_doc(rng)
    a=rng.randint(0,d.content.size); b=rng.randint(a,d.content.size)
    sa=rng.randint(0,s.content.size); sb=rng.randint(sa,s.content.size)
    sl=s.slice(sa,sb)
    T=toks(d.content); S=toks(sl.content); S=S[sl.open_start:len(S)-sl.open_end]
    assert toks(d.slice(a,b).content)[d.slice(a,b).open_start: len(toks(d.slice(a,b).content))-d.slice(a,b).open_end]==T[a:b]
    exp=T[:a]+S+T[b:]
    # well-formed?
    depth=0; ok=True
    for t in exp:
        if t[0]=="o": depth+=1
        elif t[0]=="x":
            depth-=1
            if depth<0: ok=False;break
    ok = ok and depth==0
    try:
        r=d.replace(a,b,sl)
        got=toks(r.content)
        if got!=exp: C["MISMATCH"]+=1; print("MISMATCH",d,a,b,sl)
        else:
            C["ok-equal"]+=1
            try: r.check()
            except Exception as e: C["ok-but-invalid"]+=1
    except ValueError as e:
        C[("raise", ok, str(e)[:30])]+=1
for k,v in C.most_common(): print(v,k)
