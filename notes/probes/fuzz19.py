import sys, random, collections, traceback, warnings, signal
warnings.simplefilter("ignore")
sys.path.insert(0,"/root/scratch")
import gen as G
from gen import *
from prosemirror.model import DOMSerializer, Node
from prosemirror.model.from_dom import from_html
import lxml.html
def _al(*a): raise TimeoutError("hang")
signal.signal(signal.SIGALRM,_al)
rng=random.Random(int(sys.argv[1])); N=int(sys.argv[2]); mode=sys.argv[3]
C=collections.Counter(); ex={}
def note(k,info):
    C[k]+=1
    if k not in ex or len(info)<len(ex[k]): ex[k]=info
WORDS=["a","bc","<","&","\"q\"","é","\U0001F600","x y"]
def ws_normal_inline(rng, code=False):
    out=[]; prev_space=True  # no leading space
    n=rng.randint(0,4)
    for i in range(n):
        r=rng.random()
        if code:
            out.append(schema.text(rng.choice(["a","  b","c \n d"," "]))); continue
        if r<0.75:
            w=rng.choice(WORDS)
            if not prev_space and rng.random()<0.5: w=" "+w
            ms=G.rand_marks(rng)
            out.append(schema.text(w,ms)); prev_space=False
        elif r<0.88: out.append(schema.node("hard_break")); prev_space=True
        else: out.append(schema.node("image",{"src":"i.png","title":rng.choice([None,"t\"1"])})); prev_space=False
    fr=Fragment.from_(out)
    return fr
def block(rng,d):
    r=rng.random()
    if d<=0 or r<0.45:
        k=rng.random()
        if k<0.55: return schema.node("paragraph",None,ws_normal_inline(rng))
        if k<0.7: return schema.node("heading",{"level":rng.randint(1,6)},ws_normal_inline(rng))
        if k<0.9:
            fr=ws_normal_inline(rng,True)
            return schema.node("code_block",None,Fragment.from_([schema.text("".join(c.text for c in fr.content))]) if fr.size else None)
        return schema.node("horizontal_rule")
    if r<0.65: return schema.node("blockquote",None,[block(rng,d-1) for _ in range(rng.randint(1,3))])
    lt=rng.choice(["bullet_list","ordered_list"])
    return schema.node(lt,None,[schema.node("list_item",None,[schema.node("paragraph",None,ws_normal_inline(rng))]+[block(rng,d-1) for _ in range(rng.randint(0,2))]) for _ in range(rng.randint(1,3))])
ser=DOMSerializer.from_schema(schema)
if mode=="rt":
  for n in range(N):
    d=schema.node("doc",None,[block(rng,rng.randint(0,3)) for _ in range(rng.randint(1,3))]); d.check()
    try:
        signal.alarm(5)
        html=str(ser.serialize_fragment(d.content))
        back=Node.from_json(schema, from_html(schema, html)); signal.alarm(0)
        if not back.eq(d): note(("RT-NEQ",), f"{d}\n   {html}\n   {back}")
        else: C["ok"]+=1
    except BaseException as e:
        signal.alarm(0)
        tb=traceback.extract_tb(e.__traceback__)[-1]
        note(("EXC",type(e).__name__,tb.name,tb.lineno,str(e)[:50]), f"{d}")
else:
  TAGS=["p","div","h1","h3","blockquote","pre","code","ul","ol","li","br","hr","img","a","em","i","strong","b","span","table","tr","td","tbody","foo","section","script","style","title"]
  VOID={"br","hr","img"}
  def html(rng,d):
    if d<=0 or rng.random()<0.3: return rng.choice(["a"," ","  b  ","\n","&amp;","x y","\t","é"])
    t=rng.choice(TAGS); attrs=""
    if t=="a" and rng.random()<0.6: attrs=' href="h"'
    if t=="img" and rng.random()<0.6: attrs=' src="s"'
    if rng.random()<0.2: attrs+=' style="%s"'%rng.choice(["font-weight: bold","font-style:italic","color: red","font-weight","; ;",""])
    if t in VOID: return f"<{t}{attrs}>"
    return f"<{t}{attrs}>"+"".join(html(rng,d-1) for _ in range(rng.randint(0,3)))+f"</{t}>"
  for n in range(N):
    h="".join(html(rng,rng.randint(1,4)) for _ in range(rng.randint(1,3)))
    try: lxml.html.fragment_fromstring(h, create_parent="document-fragment")
    except Exception: C["lxml-reject"]+=1; continue
    try:
        signal.alarm(5); j=from_html(schema,h); signal.alarm(0)
        doc=Node.from_json(schema,j)
        try: doc.check(); C["ok"]+=1
        except Exception as e: note(("INVALID",str(e)[:50]), h+"  =>  "+str(doc))
    except BaseException as e:
        signal.alarm(0)
        tb=traceback.extract_tb(e.__traceback__)[-1]
        note(("EXC",type(e).__name__,tb.name,tb.lineno,str(e)[:50]), h)
for k,v in sorted(C.items(), key=lambda kv:-kv[1]): print(v,k,"\n    ",ex.get(k,"")[:900])
