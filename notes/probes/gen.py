import random, warnings
warnings.simplefilter("ignore")
from prosemirror.model import Schema, Fragment, Slice, Node, Mark
from prosemirror.test_builder import test_schema as schema

def rand_marks(rng, allow_code=True):
    ms=[]
    for name in ["em","strong","code"]:
        if rng.random()<0.2: ms.append(schema.mark(name))
    if rng.random()<0.1: ms.append(schema.mark("link",{"href":rng.choice(["x","y"])}))
    return ms
def rand_inline(rng, marks_ok=True, text_only=False):
    out=[]
    for _ in range(rng.randint(0,4)):
        r=rng.random()
        if r<0.75 or text_only:
            t="".join(rng.choice("ab \U0001F600é") for _ in range(rng.randint(1,4)))
            out.append(schema.text(t, rand_marks(rng) if marks_ok else None))
        elif r<0.9: out.append(schema.node("hard_break",None,None, rand_marks(rng)))
        else: out.append(schema.node("image",{"src":"i.png"},None, rand_marks(rng)))
    return Fragment.from_(out)
def rand_block(rng, depth):
    r=rng.random()
    if depth<=0 or r<0.4:
        k=rng.random()
        if k<0.6: return schema.node("paragraph",None,rand_inline(rng))
        if k<0.75: return schema.node("heading",{"level":rng.randint(1,3)},rand_inline(rng))
        if k<0.9: return schema.node("code_block",None,rand_inline(rng,False,True))
        return schema.node("horizontal_rule")
    if r<0.6: return schema.node("blockquote",None,[rand_block(rng,depth-1) for _ in range(rng.randint(1,3))])
    lt=rng.choice(["bullet_list","ordered_list"])
    items=[]
    for _ in range(rng.randint(1,3)):
        items.append(schema.node("list_item",None,[schema.node("paragraph",None,rand_inline(rng))]+[rand_block(rng,depth-1) for _ in range(rng.randint(0,2))]))
    return schema.node(lt,None,items)
def rand_doc(rng):
    d=schema.node("doc",None,[rand_block(rng,rng.randint(0,3)) for _ in range(rng.randint(1,4))])
    d.check()
    return d
