import warnings; warnings.simplefilter("ignore")
from prosemirror.model import Schema, Fragment, Slice, Node, Mark
from prosemirror.test_builder import out, test_schema as schema
from prosemirror.transform import *
from prosemirror.transform.map import StepMap, Mapping
doc=out["doc"]; p=out["p"]; bq=out["blockquote"]; h1=out["h1"]; pre=out["pre"]
def probe(name, f):
    try: print(name, "=>", f())
    except BaseException as e: print(name, "=> EXC", type(e).__name__, e)
# a. zero-size non-empty slice
d = doc(p("ab"), p("cd"))
s0 = Slice(Fragment.from_(bq(p())), 2, 2)  # size 0? content size 4 -> 4-2-2=0
print("size", s0.size)
probe("zero-size bq slice 2..6", lambda: ReplaceStep(2,6,s0).apply(d).__dict__)
probe("empty 2..6", lambda: ReplaceStep(2,6,Slice.empty).apply(d).__dict__)
probe("json of zero-size", lambda: ReplaceStep(2,6,s0).to_json())
s1 = Slice(Fragment.from_(h1()), 1, 1)
probe("zero-size h1 slice 2..6", lambda: str(ReplaceStep(2,6,s1).apply(d).doc))
# e. mirror round trip
import itertools
bad=0; tot=0
for ranges in [[2,3,1],[2,0,2],[2,2,0],[1,1,2,5,2,0],[1,0,1,1,2,0],[0,2,2,2,1,3]]:
    M=StepMap(ranges); I=M.invert()
    for first,second in ((M,I),(I,M)):
        mp=Mapping([first,second],[0,1])
        for pos in range(0,12):
            for assoc in (-1,1):
                tot+=1
                r=mp.map(pos,assoc)
                if r!=pos:
                    bad+=1; print("mirror mismatch", ranges, "inv-first" if first is I else "M-first", pos, assoc, "->", r)
print("mirror", bad, tot)
# b. node mark invert w/ asymmetric exclusion
s = Schema({"nodes":{"doc":{"content":"para+","marks":"_"},"para":{"content":"text*"},"text":{}}, "marks":{"a":{}, "b":{}, "x":{"excludes":"a b"}, "y":{"excludes":"a"}}})
d2 = s.node("doc",None,[s.node("para",None,[s.text("t")],[s.mark("a"),s.mark("b")])])
st = AddNodeMarkStep(0, s.mark("x"))
r = st.apply(d2); inv = st.invert(d2); back = inv.apply(r.doc)
print("multi-excl:", r.doc, "->", back.doc, back.doc.eq(d2))
d3 = s.node("doc",None,[s.node("para",None,[s.text("t")],[s.mark("a")])])
st = AddNodeMarkStep(0, s.mark("y")); r = st.apply(d3); inv = st.invert(d3); back = inv.apply(r.doc)
print("asym-excl:", r.doc, type(inv).__name__, inv.mark.type.name, "->", back.doc, back.doc.eq(d3))
# c. same-type marks ordering
s3 = Schema({"nodes":{"doc":{"content":"text*"},"text":{}}, "marks":{"c":{"excludes":"","attrs":{"id":{}}}}})
c1,c2,c3=[s3.mark("c",{"id":i}) for i in (1,2,3)]
d4 = s3.node("doc",None,[s3.text("hi",[c1,c2,c3])])
print("marks:", [m.attrs for m in d4.first_child.marks])
tr = Transform(d4).remove_mark(0,2,c1)
cur = tr.doc
for i in range(len(tr.steps)-1,-1,-1): cur = tr.steps[i].invert(tr.docs[i]).apply(cur).doc
print("undo remove c1:", [m.attrs for m in cur.first_child.marks], cur.eq(d4))
d5 = s3.node("doc",None,[s3.text("hi",[c3,c1])]);
try: d5.check(); print("c3,c1 valid")
except Exception as e: print("c3,c1 invalid", e)
