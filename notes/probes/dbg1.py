import sys; sys.path.insert(0,"/root/scratch")
from gen import *
from prosemirror.test_builder import out
from prosemirror.transform import Transform
from prosemirror.transform import replace as R
doc=out["doc"]; p=out["p"]; ul=out["ul"]; li=out["li"]; h1=out["h1"]; bq=out["blockquote"]
d = doc(ul(li(p("ab"), h1("cd"))))
for a in range(d.content.size+1):
    for b in range(a, d.content.size+1):
        for op in ("delete","delete_range"):
            try:
                tr=Transform(d); getattr(tr,op)(a,b); tr.doc.check()
            except AssertionError as e:
                print(op,a,b,"ASSERT")
            except Exception as e:
                print(op,a,b,type(e).__name__,e)
# patch out assertion to see JS-like behaviour
def ofn(self, type_, attrs=None, content=None):
    top = self.frontier[self.depth]
    top.match = top.match.match_type(type_)
    self.placed = R.add_to_fragment(self.placed, self.depth, Fragment.from_(type_.create(attrs, content)))
    self.frontier.append(R._FrontierItem(type_, type_.content_match))
R.Fitter.open_frontier_node = ofn
print("--- patched")
for a in range(d.content.size+1):
    for b in range(a, d.content.size+1):
        for op in ("delete","delete_range"):
            try:
                tr=Transform(d); getattr(tr,op)(a,b); tr.doc.check()
                if (a,b) in [(2,7),(3,7),(2,8)]: print(op,a,b,"->",tr.doc, [s.to_json() for s in tr.steps])
            except Exception as e:
                print(op,a,b,type(e).__name__,e)
