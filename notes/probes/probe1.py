import traceback, warnings
warnings.simplefilter("ignore")
from prosemirror.model import Schema, Fragment, Slice, Node, Mark
from prosemirror.test_builder import out, test_schema as schema
from prosemirror.transform import *
from prosemirror.transform.map import StepMap, Mapping
doc=out["doc"]; p=out["p"]; em=out["em"]; strong=out["strong"]; ul=out["ul"]; li=out["li"]; bq=out["blockquote"]; pre=out["pre"]; ol=out["ol"]; a=out["a"]; code=out["code"]

def probe(name, f):
    try:
        print(name, "=>", f())
    except BaseException as e:
        print(name, "=> EXC", type(e).__name__, e)

# 1 diff with shared child
d1 = doc(p("a"), p("b"))
d2 = d1.copy(d1.content.replace_child(1, p("c")))
import signal
def alarm(*a): raise TimeoutError("hang")
signal.signal(signal.SIGALRM, alarm)
def t():
    signal.alarm(2)
    try: return d1.content.find_diff_start(d2.content)
    finally: signal.alarm(0)
probe("diff_start shared", t)
probe("diff_end astral", lambda: doc(p("\U0001F600ab")).content.find_diff_end(doc(p("\U0001F600xb")).content))
probe("diff_start astral", lambda: doc(p("\U0001F600ab")).content.find_diff_start(doc(p("\U0001F600ax")).content))
# 2 marks at start of paragraph with >=2 children
d = doc(p("a", em("b")))
probe("marks at pos1", lambda: [m.type.name for m in d.resolve(1).marks()])
# 3 add_to_set
from prosemirror.model import Schema
s = Schema({"nodes":{"doc":{"content":"text*"},"text":{}}, "marks":{"a":{}, "b":{}, "x":{"excludes":"a"}}})
A,B,X = s.mark("a"), s.mark("b"), s.mark("x")
probe("add X to [A,B]", lambda: [m.type.name for m in X.add_to_set([A,B])])
# 4 allowed_marks
s2 = Schema({"nodes":{"doc":{"content":"para+"},"para":{"content":"text*","marks":"c"},"text":{}}, "marks":{"a":{}, "b":{}, "c":{}}})
probe("allowed_marks [a,b,c]", lambda: [m.type.name for m in s2.nodes["para"].allowed_marks([s2.mark("a"), s2.mark("b"), s2.mark("c")])])
probe("allowed_marks [a,c]", lambda: [m.type.name for m in s2.nodes["para"].allowed_marks([s2.mark("a"), s2.mark("c")])])
# 5 StepMap
m = StepMap([2,0,3, 10,2,0])
def fe():
    r=[]; m.for_each(lambda a,b,c,d: r.append((a,b,c,d))); return r
probe("for_each", fe)
probe("touches", lambda: m.touches(2, 0))
mp = Mapping([StepMap([1,0,1])])
def am():
    x = Mapping(); x.append_mapping(mp); return len(x.maps)
probe("append_mapping", am)
# 6 wrap with wrong wrapper via ReplaceAroundStep
d = doc(p("a"))
st = ReplaceAroundStep(0,3,0,3, Slice(Fragment.from_(schema.node("code_block")),0,0),1,True)
def ap():
    r = st.apply(d); 
    if r.failed: return "failed "+r.failed
    try: r.doc.check(); return "valid "+str(r.doc)
    except Exception as e: return "INVALID DOC "+str(r.doc)
probe("bad wrap", ap)
# 7 text_between astral
d = doc(p("\U0001F600abc"))
probe("text_between(3,5)", lambda: d.text_between(3,5))
probe("slice mid surrogate", lambda: d.slice(2,4))
# 8 join_point
d = doc(bq(p("a")), bq(p("b")))
probe("join_point(1)", lambda: join_point(d, 1))
d = doc(bq(p("a"), p("b")))
for pos in range(d.content.size+1):
    probe(f"join_point({pos})", lambda: join_point(d, pos))
# 9 drop point
probe("drop_point", lambda: drop_point(doc(p("a")), 1, Slice(Fragment.from_(p("x")),0,0)))
# 10 serializer numeric attr
from prosemirror.model import DOMSerializer
from prosemirror.model.from_dom import from_html
probe("ol start", lambda: str(DOMSerializer.from_schema(schema).serialize_fragment(doc(ol({"order":3}, li(p("a")))).content)))
probe("empty ul", lambda: from_html(schema, "<ul></ul>"))
probe("a no href", lambda: from_html(schema, "<p><a>x</a></p>"))
probe("img no src", lambda: from_html(schema, "<p><img></p>"))
probe("space between marks", lambda: from_html(schema, "<p><em>a</em> <strong>b</strong></p>"))
probe("style", lambda: from_html(schema, '<p><span style="font-weight: bold">a</span></p>'))
probe("comment", lambda: from_html(schema, '<p>a<!-- c -->b</p>'))
probe("code ws", lambda: from_html(schema, '<pre><code>  a  b </code></pre>'))
probe("code only ws", lambda: from_html(schema, '<pre><code>   </code></pre>'))
