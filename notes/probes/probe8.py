import itertools, collections
from prosemirror.transform.map import StepMap, Mapping
C=collections.Counter(); ex={}
def note(k,info):
    C[k]+=1; ex.setdefault(k,info)
def ref_ranges(ranges, inverted):
    """return list of (start_old, old, new) in the coordinates being mapped FROM"""
    out=[]; diff=0
    for i in range(0,len(ranges),3):
        s,o,n=ranges[i:i+3]
        if inverted:
            out.append((s+diff, n, o)); diff+= n-o   # start in post coords = s + accumulated(new-old)
        else: out.append((s,o,n))
    return out
def ref_map(rr,pos,assoc):
    diff=0
    for (s,o,n) in rr:
        if s>pos: break
        e=s+o
        if pos<=e:
            side = assoc if o==0 else (-1 if pos==s else (1 if pos==e else assoc))
            return s+diff+(0 if side<0 else n)
        diff+=n-o
    return pos+diff
def gen_maps(maxr):
    for k in range(0,maxr+1):
        for combo in itertools.product(itertools.product(range(3),range(3),range(3)),repeat=k):
            ranges=[]; cur=0; ok=True
            for (gap,o,n) in combo:
                if o==0 and n==0: ok=False;break
                s=cur+gap; ranges+= [s,o,n]; cur=s+o
            if ok: yield ranges
nm=0
for ranges in gen_maps(3):
    nm+=1
    for inv in (False,True):
        m=StepMap(ranges,inv); rr=ref_ranges(ranges,inv)
        end=(rr[-1][0]+rr[-1][1] if rr else 0)+2
        adjacent=any(rr[i][0]+rr[i][1]==rr[i+1][0] for i in range(len(rr)-1))
        prev={-1:None,1:None}
        for pos in range(end+1):
            for assoc in (-1,1):
                got=m.map(pos,assoc); exp=ref_map(rr,pos,assoc)
                if got!=exp: note(("MAP",inv),(ranges,pos,assoc,got,exp))
                r=m.map_result(pos,assoc)
                if r.pos!=got: note(("MAPRESULT-POS",),(ranges,inv,pos,assoc))
                if prev[assoc] is not None and got<prev[assoc]: note(("NONMONO",adjacent),(ranges,inv,pos,assoc))
                prev[assoc]=got
                # token reading of deleted flags (only for non adjacent maps)
                if not adjacent:
                    def deleted_tok(t): return any(s<=t<s+o for (s,o,n) in rr)
                    before=deleted_tok(pos-1); after=deleted_tok(pos)
                    inins=any(o==0 and s==pos for (s,o,n) in rr)
                    if not inins:
                        if r.deleted_before!=before: note(("DELBEFORE",),(ranges,inv,pos,assoc,r.del_info))
                        if r.deleted_after!=after: note(("DELAFTER",),(ranges,inv,pos,assoc,r.del_info))
                        if r.deleted_across!=(before and after): note(("DELACROSS",),(ranges,inv,pos,assoc,r.del_info))
                        if r.deleted!=(before if assoc<0 else after): note(("DELETED",),(ranges,inv,pos,assoc,r.del_info))
                    else:
                        if r.deleted: note(("DELETED-INS",),(ranges,inv,pos,assoc))
            if m.map(pos,-1)>m.map(pos,1): note(("ASSOC-ORDER",),(ranges,inv,pos))
        # for_each
        fe=[]; m.for_each(lambda a,b,c,d: fe.append((a,b,c,d)))
        diff=0; exp=[]
        for (s,o,n) in rr: exp.append((s,s+o,s+diff,s+diff+n)); diff+=n-o
        if fe!=exp: note(("FOREACH",inv),(ranges,fe,exp))
        # mirror law
        I=m.invert()
        for first,second,lab in ((m,I,"MI"),):
            mp=Mapping([first,second],[0,1])
            for pos in range(end+1):
                for assoc in (-1,1):
                    if mp.map(pos,assoc)!=pos:
                        shared=any(rr[i][0]+rr[i][1]==rr[i+1][0]==pos for i in range(len(rr)-1))
                        note(("MIRROR",lab,"at-shared-boundary" if shared else ("adjacent-map" if adjacent else "plain")),(ranges,inv,pos,assoc,mp.map(pos,assoc)))
print("maps",nm)
for k,v in sorted(C.items(), key=lambda kv:-kv[1]): print(v,k,ex[k])
