import sys; sys.path.insert(0,"/root/scratch")
from gen import *
from prosemirror.test_builder import out
from prosemirror.transform import *
doc=out["doc"]; p=out["p"]; ul=out["ul"]; ol=out["ol"]; li=out["li"]; h1=out["h1"]; bq=out["blockquote"]
cnt=0
import itertools
docs=[doc(ol(li(p("a"), ol(li(p("b"), h1("c"), p("d")), li(p("e"), p("f")))))),
      doc(ol(li(p("a"), ol(li(p("b"), p("c")))))),
      doc(ul(li(p("a"), p("b")), li(p("c"))))]
for d in docs:
  seen=set()
  for a in range(d.content.size+1):
    for b in range(a,d.content.size+1):
        r=d.resolve(a).block_range(d.resolve(b))
        if r is None: continue
        key=(r.start,r.end,r.depth)
        if key in seen: continue
        seen.add(key)
        t=lift_target(r)
        if t is None: continue
        try:
            tr=Transform(d).lift(r,t); tr.doc.check()
        except Exception as e:
            print("FAIL", d, key, "target",t, type(e).__name__, e)
