"""Reference content-expression semantics: own parser + Brzozowski derivatives."""
import re, functools
TOK = re.compile(r"\s*(\w+|\S)")
class ParseErr(Exception): pass
def tokenize(s):
    out=[]; i=0
    s=s.strip()
    while i < len(s):
        m=TOK.match(s,i)
        if not m: break
        out.append(m.group(1)); i=m.end()
    return out
# regex AST as tuples: ('empty',) ('eps',) ('sym',name) ('seq',a,b) ('alt',a,b) ('star',a)
EMPTY=('empty',); EPS=('eps',)
def seq(a,b):
    if a==EMPTY or b==EMPTY: return EMPTY
    if a==EPS: return b
    if b==EPS: return a
    return ('seq',a,b)
def alt(a,b):
    if a==EMPTY: return b
    if b==EMPTY: return a
    if a==b: return a
    # flatten & sort for canonical form
    items=set()
    def coll(x):
        if x[0]=='alt': coll(x[1]); coll(x[2])
        else: items.add(x)
    coll(a); coll(b)
    items=sorted(items, key=repr)
    r=items[0]
    for x in items[1:]: r=('alt',r,x)
    return r
def star(a):
    if a in (EMPTY,EPS): return EPS
    if a[0]=='star': return a
    return ('star',a)
def opt(a): return alt(EPS,a)
def plus(a): return seq(a,star(a))
def rng(a,lo,hi):
    r=EPS
    for _ in range(lo): r=seq(r,a)
    if hi==-1: return seq(r,star(a))
    tail=EPS
    for _ in range(hi-lo): tail=opt(seq(a,tail))
    return seq(r,tail)
@functools.lru_cache(maxsize=None)
def nullable(r):
    k=r[0]
    if k in('eps','star'): return True
    if k in('empty','sym'): return False
    if k=='seq': return nullable(r[1]) and nullable(r[2])
    return nullable(r[1]) or nullable(r[2])
@functools.lru_cache(maxsize=None)
def deriv(r,a):
    k=r[0]
    if k in('empty','eps'): return EMPTY
    if k=='sym': return EPS if r[1]==a else EMPTY
    if k=='seq':
        d=seq(deriv(r[1],a),r[2])
        return alt(d,deriv(r[2],a)) if nullable(r[1]) else d
    if k=='alt': return alt(deriv(r[1],a),deriv(r[2],a))
    return seq(deriv(r[1],a),r)
@functools.lru_cache(maxsize=None)
def first(r):
    k=r[0]
    if k in('empty','eps'): return frozenset()
    if k=='sym': return frozenset([r[1]])
    if k=='seq': return first(r[1])|first(r[2]) if nullable(r[1]) else first(r[1])
    if k=='alt': return first(r[1])|first(r[2])
    return first(r[1])
class P:
    def __init__(s,toks,resolve): s.t=toks; s.i=0; s.resolve=resolve
    def peek(s): return s.t[s.i] if s.i<len(s.t) else None
    def eat(s,x):
        if s.peek()==x: s.i+=1; return True
        return False
    def expr(s):
        r=s.seq_()
        while s.eat('|'): r=alt(r,s.seq_())
        return r
    def seq_(s):
        r=s.sub()
        while s.peek() is not None and s.peek() not in (')','|'): r=seq(r,s.sub())
        return r
    def sub(s):
        r=s.atom()
        while True:
            if s.eat('+'): r=plus(r)
            elif s.eat('*'): r=star(r)
            elif s.eat('?'): r=opt(r)
            elif s.eat('{'):
                lo=s.num(); hi=lo
                if s.eat(','): hi=-1 if s.peek()=='}' else s.num()
                if not s.eat('}'): raise ParseErr('unclosed range')
                r=rng(r,lo,hi)
            else: return r
    def num(s):
        t=s.peek()
        if t is None or not t.isdigit(): raise ParseErr('number')
        s.i+=1; return int(t)
    def atom(s):
        if s.eat('('):
            r=s.expr()
            if not s.eat(')'): raise ParseErr('paren')
            return r
        t=s.peek()
        if t is None or not re.match(r'\w',t): raise ParseErr('unexpected %r'%t)
        s.i+=1
        names=s.resolve(t)
        r=EMPTY
        for n in names: r=alt(r,('sym',n))
        return r
def parse(src, resolve):
    toks=tokenize(src)
    if not toks: return EPS
    p=P(toks,resolve); r=p.expr()
    if p.peek() is not None: raise ParseErr('trailing')
    return r
