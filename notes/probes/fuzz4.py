"""generic doc generator from schema via library ContentMatch (scratch only), totality probe on strict schemas"""
import sys, random, collections, traceback, warnings, signal
warnings.simplefilter("ignore")
from prosemirror.model import Schema, Fragment, Slice, Node
from prosemirror.schema.basic import schema as basic
from prosemirror.schema.list import add_list_nodes
from prosemirror.transform import *
bn=dict(basic.spec["nodes"]); ln=add_list_nodes(dict(bn),"paragraph block*","block")
def mk(nodes): return Schema({"nodes":nodes,"marks":basic.spec["marks"]})
ZOO={
 "heading_body": mk({**bn,"doc":{"content":"heading body"},"body":{"content":"block+"}}),
 "title": mk({**ln,"title":{"content":"text*"},"doc":{"content":"title? block*"}}),
 "fixed": Schema({"nodes":{"doc":{"content":"block+"},"a":{"content":"inline*"},"b":{"content":"inline*"},"block":{"content":"a b"},"text":{"group":"inline"}}}),
 "strict_list": mk({**add_list_nodes(dict(bn),"paragraph (bullet_list | ordered_list)?","block")}),
 "table_strict": mk({**ln,"table":{"group":"block","content":"row+"},"row":{"content":"cell+"},"cell":{"content":"paragraph+","isolating":True}}),
 "structure": Schema({"nodes":{"doc":{"content":"head? block* sect* closing?"},"para":{"content":"text*","group":"block"},"head":{"content":"text*","marks":""},"figure":{"content":"caption figureimage","group":"block"},"quote":{"content":"block+","group":"block"},"figureimage":{},"caption":{"content":"text*","marks":""},"sect":{"content":"head block* sect*"},"closing":{"content":"text*"},"text":{"group":"inline"},"fixed":{"content":"head para closing","group":"block"}},"marks":{"em":{}}}),
}
def gen_node(rng,S,t,depth):
    if t.is_text:
        ms=[m.create() for m in S.marks.values() if not m.attrs and rng.random()<0.15]
        return S.text("".join(rng.choice("abc ") for _ in range(rng.randint(1,3))),ms)
    attrs={}
    for k,a in t.attrs.items():
        if a.is_required: attrs[k]="v"
    m=t.content_match; kids=[]
    n=0
    while True:
        opts=[e for e in (m.edge(i) for i in range(m.edge_count))]
        if not opts: break
        if m.valid_end and (rng.random()<0.35 or n>=3 or depth<=0 and True): 
            if m.valid_end: break
        if depth<=0:
            # prefer leaves/textblocks
            opts2=[e for e in opts if e.type.is_leaf or e.type.is_textblock or e.type.is_text] or opts
            e=rng.choice(opts2)
        else: e=rng.choice(opts)
        kids.append(gen_node(rng,S,e.type,depth-1)); m=e.next; n+=1
        if n>8: 
            f=m.fill_before(Fragment.empty,True); kids+=list(f.content); break
    node=t.create(attrs or None,Fragment.from_(kids))
    return node
def rdoc(rng,S):
    for _ in range(20):
        d=gen_node(rng,S,S.nodes["doc"],rng.randint(1,4))
        try: d.check(); return d
        except Exception: continue
    raise RuntimeError("gen")
def _al(*a): raise TimeoutError("hang")
signal.signal(signal.SIGALRM,_al)
rng=random.Random(int(sys.argv[1])); N=int(sys.argv[2]); C=collections.Counter(); ex={}
def note(k,info):
    C[k]+=1
    if k not in ex or len(info)<len(ex[k]): ex[k]=info
for name,S in ZOO.items():
  for n in range(N):
    d=rdoc(rng,S); src=rdoc(rng,S); size=d.content.size
    a=rng.randint(0,size); b=rng.randint(a,size)
    sa=rng.randint(0,src.content.size); sb=rng.randint(sa,src.content.size); sl=src.slice(sa,sb)
    op=rng.choice(["replace","delete","replace_range","delete_range"])
    info=f"{op} {d} {a} {b} {sl if not op.startswith('delete') else ''}"
    signal.alarm(3)
    try:
        tr=Transform(d)
        if op=="replace": tr.replace(a,b,sl)
        elif op=="delete": tr.delete(a,b)
        elif op=="replace_range": tr.replace_range(a,b,sl)
        else: tr.delete_range(a,b)
        signal.alarm(0)
        try: tr.doc.check(); C[(name,"ok")]+=1
        except Exception as e: note((name,"INVALID",op,str(e)[:40]),info)
    except BaseException as e:
        signal.alarm(0)
        tb=traceback.extract_tb(e.__traceback__)[-1]
        note((name,"EXC",op,type(e).__name__,tb.name,tb.lineno,str(e)[:50]),info)
for k,v in sorted(C.items(), key=lambda kv:(kv[0][0],-kv[1])): print(v,k,"\n    ",ex.get(k,"")[:500])
