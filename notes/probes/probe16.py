import sys, random, collections, traceback, warnings, signal
warnings.simplefilter("ignore")
src=open("/root/scratch/fuzz4.py").read().split("def _al")[0]
exec(src)
ZOO["list"]=mk(ln)
ZOO["table"]=mk({**ln,"table":{"group":"block","content":"row+"},"row":{"content":"cell+"},"cell":{"content":"block+","isolating":True}})
for k in ("fixed","structure"): ZOO.pop(k)
rng=random.Random(int(sys.argv[1])); N=int(sys.argv[2]); C=collections.Counter(); ex={}
def note(k,info): C[k]+=1; ex.setdefault(k,info)
def rslice(rng,S):
    s2=rdoc(rng,S); sa=rng.randint(0,s2.content.size); sb=rng.randint(sa,min(s2.content.size,sa+rng.choice([0,1,2,3,6,20])))
    return s2.slice(sa,sb)
for name,S in ZOO.items():
  marks=[m.create() for m in S.marks.values() if not m.attrs]
  for n in range(N):
    d=rdoc(rng,S); size=d.content.size
    kind=rng.choice(["rr","rr","rr","mm"])
    if kind=="mm":
        a=rng.randint(0,size); b=rng.randint(a,size); c=rng.randint(0,size); e=rng.randint(c,size)
        cls=rng.choice([AddMarkStep,RemoveMarkStep]); m1=rng.choice(marks); m2=rng.choice([m1,m1,rng.choice(marks)])
        s1=cls(a,b,m1); s2=rng.choice([cls,cls,AddMarkStep])(c,e,m2)
    else:
        a=rng.randint(0,size); b=rng.randint(a,min(size,a+rng.choice([0,0,1,2,5])))
        s1=ReplaceStep(a,b,rslice(rng,S) if rng.random()<0.7 else Slice.empty)
    r1=s1.apply(d)
    if r1.failed: C[(name,"s1fail")]+=1; continue
    d1=r1.doc
    if kind=="rr":
        sl2=rslice(rng,S) if rng.random()<0.7 else Slice.empty
        if rng.random()<0.5:
            f2=s1.from_+s1.slice.size; t2=rng.randint(f2,min(d1.content.size,f2+rng.choice([0,0,1,2,5])))
        else:
            t2=s1.from_; f2=rng.randint(max(0,t2-rng.choice([0,0,1,2,5])),t2)
        s2=ReplaceStep(f2,t2,sl2)
    r2=s2.apply(d1)
    if r2.failed: C[(name,"s2fail")]+=1; continue
    try: m=s1.merge(s2)
    except Exception as e: note((name,"MERGE-EXC",type(e).__name__),f"{d} {s1.to_json()} {s2.to_json()}"); continue
    if m is None: C[(name,"nomerge",kind)]+=1; continue
    rm=m.apply(d)
    if rm.failed: note((name,"MERGED-FAILS",kind,rm.failed[:30]),f"{d} {s1.to_json()} {s2.to_json()} merged {m.to_json()}")
    elif not rm.doc.eq(r2.doc): note((name,"MERGED-NEQ",kind),f"{d} {s1.to_json()} {s2.to_json()} -> {rm.doc} vs {r2.doc}")
    else: C[(name,"merged-ok",kind, "open" if kind=="rr" and (m.slice.open_start or m.slice.open_end) else "")]+=1
for k,v in sorted(C.items(), key=lambda kv:(kv[0][0],kv[0][1])):
    if k[1] in("s1fail","s2fail","nomerge"): continue
    print(v,k,ex.get(k,"")[:700])
