import sys, warnings; warnings.simplefilter("ignore")
sys.argv=["x","1","0"]
src=open("/root/scratch/fuzz4.py").read().split("def _al")[0]
exec(src)
S=ZOO["strict_list"]
def n(t,*c,**a): return S.node(t,a or None,list(c))
t=S.text
d=n("doc", n("blockquote", n("bullet_list", n("list_item", n("paragraph"), n("ordered_list", n("list_item", n("paragraph")))), n("list_item", n("paragraph"), n("bullet_list", n("list_item", n("paragraph"))))), n("paragraph", t("b")), n("heading", t(" cc"))))
print(d, d.content.size)
sl=Slice(Fragment.from_([n("bullet_list", n("list_item", n("paragraph"))), n("heading", n("image",src="x"))]),3,1)
import traceback
try:
    Transform(d).replace(15,29,sl)
except Exception: traceback.print_exc()
# minimise: try all ranges
import itertools
for a in range(d.content.size+1):
    for b in range(a,d.content.size+1):
        try: Transform(d).replace(a,b,sl)
        except AttributeError as e: print("AE",a,b)
        except Exception as e: print(type(e).__name__,a,b,e)
print("---- trace")
from prosemirror.transform import replace as R
orig=R.Fitter.find_fittable
def ff(self):
    print("unplaced:", self.unplaced, "frontier:", [(f.type.name) for f in self.frontier])
    return orig(self)
R.Fitter.find_fittable=ff
for name in ("place_nodes","open_more","drop_node","close_frontier_node","open_frontier_node"):
    def wrap(name):
        o=getattr(R.Fitter,name)
        def w(self,*a,**k):
            r=o(self,*a,**k); print("  ",name, (a[0].__dict__ if False else ""), "->", r if name=="open_more" else ""); return r
        return w
    setattr(R.Fitter,name,wrap(name))
try: Transform(d).replace(19,19,sl)
except Exception as e: print("EXC",type(e).__name__,e)
print("---- trace2")
o2=R.Fitter.place_nodes
def pn(self,f):
    print("   fittable", f.slice_depth, f.frontier_depth, f.parent, f.inject, f.wrap)
    return o2(self,f)
R.Fitter.place_nodes=pn
try: Transform(d).replace(19,19,sl)
except Exception as e: print("EXC",type(e).__name__,e)
print(d.resolve(19).parent, d.resolve(19).parent_offset, d.resolve(19).depth)
