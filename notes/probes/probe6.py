import sys, time, itertools, random; sys.path.insert(0,"/root/scratch")
from refre import *
from prosemirror.model import Schema
ALPHA=["a","b","c"]
def mk(expr):
    nodes={"doc":{"content":"host+"},"host":{"content":expr},"a":{"group":"g"},"b":{"group":"g"},"c":{},"text":{}}
    return Schema({"nodes":nodes})
def resolve(name):
    if name in ("a","b","c"): return [name]
    if name=="g": return ["a","b"]
    raise ParseErr("unknown "+name)
def equiv(expr):
    s=mk(expr); r0=parse(expr,resolve)
    start=s.nodes["host"].content_match
    seen={}; work=[(start,r0)]
    while work:
        m,r=work.pop()
        if id(m) in seen:
            # same lib state must be language-equal to previously paired ref state: pairing by derivative canonical form may differ syntactically; skip strictness
            continue
        seen[id(m)]=r
        if m.valid_end!=nullable(r): return f"valid_end mismatch {expr}"
        for a in ALPHA:
            nxt=m.match_type(s.nodes[a]); d=deriv(r,a)
            if (nxt is None)!=(d==EMPTY): return f"liveness mismatch {expr} on {a}: lib {nxt is not None} ref {d}"
            if nxt is not None: work.append((nxt,d))
    return None
# enumerate ASTs
def gen(size):
    if size==1:
        for n in ["a","b","c","g"]: yield n
        return
    for sub in gen(size-1):
        for op in ["?","*","+","{2}","{1,}","{0,2}","{1,2}"]: yield f"({sub}){op}"
    for k in range(1,size-1):
        for l in gen(k):
            for r in gen(size-1-k):
                yield f"({l}) ({r})"; yield f"({l})|({r})"
t=time.time(); n=0; bad=0
for size in range(1,5):
    for e in gen(size):
        n+=1
        res=equiv(e)
        if res: bad+=1; print(res)
print("expressions",n,"bad",bad,"time",round(time.time()-t,1))
