import sys, random, collections, traceback
sys.path.insert(0,"/root/scratch")
import gen
from gen import *
from prosemirror.transform import *
from prosemirror.transform.structure import NodeTypeWithAttrs
rng=random.Random(int(sys.argv[1])); N=int(sys.argv[2])
# no astral
import gen as G
def rand_inline(rng, marks_ok=True, text_only=False):
    out=[]
    for _ in range(rng.randint(0,3)):
        r=rng.random()
        if r<0.75 or text_only:
            t="".join(rng.choice("abc ") for _ in range(rng.randint(1,3)))
            out.append(schema.text(t, G.rand_marks(rng) if marks_ok else None))
        elif r<0.9: out.append(schema.node("hard_break",None,None, G.rand_marks(rng)))
        else: out.append(schema.node("image",{"src":"i.png"},None, G.rand_marks(rng)))
    return Fragment.from_(out)
G.rand_inline=rand_inline
buckets=collections.Counter(); ex={}
def note(k, info):
    buckets[k]+=1
    if k not in ex or len(info)<len(ex[k]): ex[k]=info
def rand_op(rng, d):
    """returns transform with some op applied or None"""
    size=d.content.size
    tr=Transform(d)
    op=rng.choice(["replace","delete","add_mark","remove_mark","split","join","lift","wrap","insert","setblock"])
    a=rng.randint(0,size); b=rng.randint(a,size)
    try:
        if op=="replace":
            src=rand_doc(rng); sa=rng.randint(0,src.content.size); sb=rng.randint(sa,src.content.size)
            tr.replace(a,b,src.slice(sa,sb))
        elif op=="delete": tr.delete(a,b)
        elif op=="add_mark": tr.add_mark(a,b,rng.choice([schema.mark("em"),schema.mark("strong"),schema.mark("link",{"href":"z"})]))
        elif op=="remove_mark": tr.remove_mark(a,b,rng.choice([schema.mark("em"),schema.marks["link"],None]))
        elif op=="split":
            dp=rng.randint(1,2)
            if can_split(d,a,dp): tr.split(a,dp)
        elif op=="join":
            if can_join(d,a): tr.join(a)
        elif op=="lift":
            r=d.resolve(a).block_range(d.resolve(b))
            if r is not None:
                t=lift_target(r)
                if t is not None: tr.lift(r,t)
        elif op=="wrap":
            r=d.resolve(a).block_range(d.resolve(b))
            if r is not None:
                w=find_wrapping(r, schema.nodes[rng.choice(["blockquote","bullet_list","ordered_list"])])
                if w: tr.wrap(r,w)
        elif op=="insert":
            tr.insert(a, schema.text("X"))
        elif op=="setblock":
            tr.set_block_type(a,b,schema.nodes[rng.choice(["heading","paragraph","code_block"])],None)
    except Exception as e:
        tb=traceback.extract_tb(e.__traceback__)[-1]
        note(("OPEXC",op,type(e).__name__,tb.name,tb.lineno,str(e)[:40]), f"{d} {a} {b}")
        return None, op
    return tr, op
mode=sys.argv[3]
for n in range(N):
    d=rand_doc(rng)
    if mode=="undo":
        tr,op=rand_op(rng,d)
        if not tr or not tr.steps: continue
        try:
            cur=tr.doc
            for i in range(len(tr.steps)-1,-1,-1):
                r=tr.steps[i].invert(tr.docs[i]).apply(cur)
                if r.failed: raise ValueError("invfail "+r.failed)
                cur=r.doc
            if not cur.eq(d): note(("UNDO-NEQ",op), f"{d} => {tr.doc} => {cur} :: {[s.to_json() for s in tr.steps]}")
            else: buckets[("ok",op)]+=1
        except Exception as e:
            note(("UNDOEXC",op,type(e).__name__,str(e)[:40]), f"{d} :: {[s.to_json() for s in tr.steps]}")
    elif mode=="commute":
        t1,op1=rand_op(rng,d); t2,op2=rand_op(rng,d)
        if not t1 or not t2 or len(t1.steps)!=1 or len(t2.steps)!=1: continue
        A,B=t1.steps[0],t2.steps[0]
        def hull(s):
            if isinstance(s,(ReplaceStep,ReplaceAroundStep,AddMarkStep,RemoveMarkStep)): return s.from_, s.to
            return s.pos, s.pos+1
        (a1,a2),(b1,b2)=hull(A),hull(B)
        if not (a2 < b1 or b2 < a1): continue
        try:
            A2=A.map(B.get_map()); B2=B.map(A.get_map())
            if A2 is None or B2 is None: note(("DROPPED",op1,op2), f"{d} {A.to_json()} {B.to_json()}"); continue
            r1=B2.apply(t1.doc); r2=A2.apply(t2.doc)
            if r1.failed or r2.failed: note(("FAILED",op1,op2,r1.failed or r2.failed), f"{d} {A.to_json()} {B.to_json()}"); continue
            if not r1.doc.eq(r2.doc): note(("DIVERGE",op1,op2), f"{d} {A.to_json()} {B.to_json()} -> {r1.doc} vs {r2.doc}")
            else: buckets[("ok",)]+=1
        except Exception as e:
            note(("EXC",op1,op2,type(e).__name__,str(e)[:40]), f"{d} {A.to_json()} {B.to_json()}")
    elif mode=="merge":
        t1,op1=rand_op(rng,d)
        if not t1 or len(t1.steps)<1: continue
        d1=t1.doc
        t2,op2=rand_op(rng,d1)
        if not t2 or not t2.steps: continue
        A=t1.steps[-1]; B=t2.steps[0]; base=t1.docs[-1]
        mid=A.apply(base).doc
        m=A.merge(B)
        if m is None: buckets[("nomerge",)]+=1; continue
        seq=B.apply(mid)
        if seq.failed: continue
        r=m.apply(base)
        if r.failed: note(("MERGEFAIL",op1,op2,r.failed), f"{base} {A.to_json()} {B.to_json()}")
        elif not r.doc.eq(seq.doc): note(("MERGENEQ",op1,op2), f"{base} {A.to_json()} {B.to_json()} -> {r.doc} vs {seq.doc}")
        else: buckets[("ok-merged",type(A).__name__)]+=1
for k,v in sorted(buckets.items(), key=lambda kv:-kv[1]): print(v,k,"\n    ",ex.get(k,"")[:600])
