import sys, random, collections, traceback, warnings
warnings.simplefilter("ignore")
from prosemirror.model import Schema, Fragment
from prosemirror.transform import Transform
from prosemirror.schema.basic import schema as basic
def mk(marks, extra=None):
    nodes={"doc":{"content":"block+"},"paragraph":{"content":"inline*","group":"block"},
           "plain":{"content":"inline*","group":"block","marks":""},
           "some":{"content":"inline*","group":"block","marks":list(marks)[0]},
           "blockquote":{"content":"block+","group":"block"},
           "text":{"group":"inline"},"img":{"inline":True,"group":"inline"}}
    return Schema({"nodes":nodes,"marks":marks})
SCH={
 "comment": mk({"comment":{"excludes":"","attrs":{"id":{}}},"em":{}}),
 "bigsmall": mk({"big":{"excludes":"small1 small2"},"small1":{},"small2":{},"em":{}}),
 "remark": mk({"remark":{"attrs":{"id":{}},"excludes":"","inclusive":False},"user":{"attrs":{"id":{}},"excludes":"_"},"strong":{"excludes":"em-group"},"em":{"group":"em-group"}}),
 "asym": mk({"a":{},"b":{"excludes":"a"},"c":{"excludes":"a b c"},"d":{"excludes":""}}),
}
def excl(S,t):
    spec=S.marks[t].spec; e=spec.get("excludes")
    if e is None: return {t}
    if e=="": return set()
    out=set()
    for name in e.split(" "):
        if name=="_": out|=set(S.marks)
        elif name in S.marks: out.add(name)
        else:
            out|={m for m,mt in S.marks.items() if name in (mt.spec.get("group","").split(" "))}
    return out
def key(m): return (m.type.name, repr(sorted(m.attrs.items())))
def ref_add(S,m,marks):
    ranks=list(S.marks)
    if any(key(o)==key(m) for o in marks): return marks
    for o in marks:
        if m.type.name in excl(S,o.type.name) and o.type.name not in excl(S,m.type.name): return marks
    kept=[o for o in marks if o.type.name not in excl(S,m.type.name)]
    out=[];placed=False
    for o in kept:
        if not placed and ranks.index(o.type.name)>ranks.index(m.type.name): out.append(m); placed=True
        out.append(o)
    if not placed: out.append(m)
    return out
def allowed(S,parent,mt):
    spec=S.nodes[parent].spec.get("marks")
    if spec is None or spec=="_": return True
    if spec=="": return False
    return mt in spec.split(" ")
def rmark(rng,S):
    t=rng.choice(list(S.marks)); mt=S.marks[t]
    return mt.create({k:rng.randint(1,2) for k in mt.attrs} or None)
def canon_marks(rng,S,parent):
    ms=[]
    for _ in range(rng.randint(0,3)):
        m=rmark(rng,S)
        if allowed(S,parent,m.type.name): ms=ref_add(S,m,ms)
    return ms
def rdoc(rng,S):
    def tb():
        t=rng.choice(["paragraph","plain","some"])
        kids=[]
        for _ in range(rng.randint(0,4)):
            if rng.random()<0.8: kids.append(S.text("".join(rng.choice("ab") for _ in range(rng.randint(1,3))),canon_marks(rng,S,t)))
            else: kids.append(S.nodes["img"].create(None,None,canon_marks(rng,S,t)))
        return S.nodes[t].create(None,Fragment.from_(kids))
    def blk(d):
        if d<=0 or rng.random()<0.7: return tb()
        return S.nodes["blockquote"].create(None,[blk(d-1) for _ in range(rng.randint(1,2))])
    d=S.nodes["doc"].create(None,[blk(2) for _ in range(rng.randint(1,3))]); d.check(); return d
def toks(n,parent=None):
    out=[]
    for c in n.content.content:
        if c.is_text: out.extend(("c",ch,c.marks,n.type.name) for ch in c.text)
        elif c.is_leaf: out.append(("l",c.type.name,c.marks,n.type.name))
        else: out.append(("o",c.type.name,c.marks,n.type.name)); out+=toks(c); out.append(("x",c.type.name,None,n.type.name))
    return out
rng=random.Random(int(sys.argv[1])); N=int(sys.argv[2]); C=collections.Counter(); ex={}
def note(k,info): C[k]+=1; ex.setdefault(k,info)
for name,S in SCH.items():
  for n in range(N):
    d=rdoc(rng,S); T=toks(d); size=d.content.size
    a=rng.randint(0,size); b=rng.randint(a,size); m=rmark(rng,S)
    op=rng.choice(["add","remove","remove_type","remove_all"])
    try:
        tr=Transform(d)
        if op=="add": tr.add_mark(a,b,m)
        elif op=="remove": tr.remove_mark(a,b,m)
        elif op=="remove_type": tr.remove_mark(a,b,m.type)
        else: tr.remove_mark(a,b,None)
        tr.doc.check()
    except Exception as e:
        note((name,op,"EXC",type(e).__name__,str(e)[:40]),f"{d} {a} {b} {m.type.name}{m.attrs}"); continue
    T1=toks(tr.doc)
    if len(T1)!=len(T): note((name,op,"LEN"),str(d)); continue
    bad=None
    for i,(t0,t1) in enumerate(zip(T,T1)):
        if (t0[0],t0[1],t0[3])!=(t1[0],t1[1],t1[3]): bad=("STRUCT",i);break
        if t0[0] in "cl":
            old=list(t0[2]); new=[key(x) for x in t1[2]]
            if a<=i<b:
                if op=="add": exp=ref_add(S,m,old) if allowed(S,t0[3],m.type.name) else old
                elif op=="remove": exp=[o for o in old if key(o)!=key(m)]
                elif op=="remove_type": exp=[o for o in old if o.type.name!=m.type.name]
                else: exp=[]
            else: exp=old
            if [key(x) for x in exp]!=new: bad=("MARKS",i,[key(x) for x in old],[key(x) for x in exp],new);break
        elif t0[0]=="o" and [key(x) for x in t0[2]]!=[key(x) for x in t1[2]]: bad=("NODEMARKS",i);break
    if bad: note((name,op,bad[0]),f"{d} {a} {b} {m.type.name}{m.attrs} -> {tr.doc} {bad}")
    else: C[(name,op,"ok")]+=1
for k,v in sorted(C.items(), key=lambda kv:(kv[0][0],kv[0][1])): print(v,k,ex.get(k,"")[:600] if k[2]!="ok" else "")
