import sys, random, collections, traceback, warnings
warnings.simplefilter("ignore")
import prosemirror; print(prosemirror.__file__)
from prosemirror.model import Schema, Fragment, Slice, Node
from prosemirror.schema.basic import schema as basic
from prosemirror.schema.list import add_list_nodes
from prosemirror.transform import *
nodes = add_list_nodes(dict(basic.spec["nodes"]), "paragraph block*", "block")
nodes.update({"iso":{"group":"block","content":"block+","isolating":True},
 "table":{"group":"block","content":"row+","isolating":True},"row":{"content":"cell+"},"cell":{"content":"block+","isolating":True}})
S=Schema({"nodes":nodes,"marks":basic.spec["marks"]})
def marks(rng):
    ms=[]
    for name in ["em","strong","code"]:
        if rng.random()<0.2: ms.append(S.mark(name))
    return ms
def inline(rng, plain=False):
    out=[]
    for _ in range(rng.randint(0,3)):
        r=rng.random()
        if r<0.8 or plain: out.append(S.text("".join(rng.choice("abc ") for _ in range(rng.randint(1,3))), None if plain else marks(rng)))
        elif r<0.9: out.append(S.node("hard_break"))
        else: out.append(S.node("image",{"src":"i"}))
    return Fragment.from_(out)
def block(rng,d):
    r=rng.random()
    if d<=0 or r<0.35:
        k=rng.random()
        if k<0.6: return S.node("paragraph",None,inline(rng))
        if k<0.75: return S.node("heading",{"level":rng.randint(1,2)},inline(rng))
        if k<0.9: return S.node("code_block",None,inline(rng,True))
        return S.node("horizontal_rule")
    if r<0.5: return S.node("blockquote",None,[block(rng,d-1) for _ in range(rng.randint(1,2))])
    if r<0.65: return S.node("iso",None,[block(rng,d-1) for _ in range(rng.randint(1,2))])
    if r<0.8: return S.node("table",None,[S.node("row",None,[S.node("cell",None,[block(rng,d-1) for _ in range(rng.randint(1,2))]) for _ in range(rng.randint(1,2))]) for _ in range(rng.randint(1,2))])
    return S.node(rng.choice(["bullet_list","ordered_list"]),None,[S.node("list_item",None,[S.node("paragraph",None,inline(rng))]+[block(rng,d-1) for _ in range(rng.randint(0,1))]) for _ in range(rng.randint(1,2))])
def rdoc(rng):
    d=S.node("doc",None,[block(rng,rng.randint(0,3)) for _ in range(rng.randint(1,3))]); d.check(); return d
def toks(n):
    out=[]
    for c in n.content.content:
        mk=tuple((m.type.name,str(m.attrs)) for m in c.marks)
        if c.is_text:
            for ch in c.text: out.append(("c",ch,mk))
        elif c.is_leaf: out.append(("l",c.type.name,str(c.attrs),mk))
        else:
            out.append(("o",c.type.name,str(c.attrs),mk)); out+=toks(c); out.append(("x",c.type.name,str(c.attrs),mk))
    return out
def leafs(T): return [t for t in T if t[0] in "cl"]
def subseq_dp(M,Sx):
    # M tokens minus fillers must be subsequence of Sx ignoring marks
    key=lambda t:(t[0],t[1]) if t[0]=="c" else (t[0],t[1],t[2])
    Mk=[key(t) for t in M]; Sk=[key(t) for t in Sx]
    filler=[t[0]=="l" and t[1] in ("horizontal_rule","hard_break") and t[3]==() for t in M]
    # dp[j] = set of reachable positions in S
    cur={0}
    for i,m in enumerate(Mk):
        nxt=set()
        for j in cur:
            if filler[i]: nxt.add(j)
            for k in range(j,len(Sk)):
                if Sk[k]==m: nxt.add(k+1); break
        cur=nxt
        if not cur: return False
    return True
rng=random.Random(int(sys.argv[1])); N=int(sys.argv[2]); C=collections.Counter(); ex={}
def note(k,info):
    C[k]+=1
    if k not in ex or len(info)<len(ex[k]): ex[k]=info
for n in range(N):
    d=rdoc(rng); src=rdoc(rng); T=toks(d); size=d.content.size
    a=rng.randint(0,size); b=rng.randint(a,size)
    sa=rng.randint(0,src.content.size); sb=rng.randint(sa,src.content.size); sl=src.slice(sa,sb)
    op=rng.choice(["replace","delete","replace_range","delete_range"])
    if op.startswith("delete"): sl=Slice.empty
    info=f"{op} {d} {a} {b} {sl}"
    import signal
    def _al(*a): raise TimeoutError('hang')
    signal.signal(signal.SIGALRM,_al); signal.alarm(3)
    try:
        tr=Transform(d); 
        if op=="replace": tr.replace(a,b,sl)
        elif op=="delete": tr.delete(a,b)
        elif op=="replace_range": tr.replace_range(a,b,sl)
        else: tr.delete_range(a,b)
    except BaseException as e:
        signal.alarm(0)
        tb=traceback.extract_tb(e.__traceback__)[-1]
        note(("EXC",op,type(e).__name__,tb.name,tb.lineno,str(e)[:40]),info); continue
    signal.alarm(0)
    try: tr.doc.check()
    except Exception as e: note(("INVALID",op,str(e)[:40]),info); continue
    T1=toks(tr.doc); L0b=[t for i,t in enumerate(T) if i<a and t[0] in "cl"]; L0a=[t for i,t in enumerate(T) if i>=b and t[0] in "cl"]
    L1=leafs(T1)
    if L1[:len(L0b)]!=L0b or (len(L0a) and L1[len(L1)-len(L0a):]!=L0a) or len(L1)<len(L0b)+len(L0a):
        note(("PRESERVE-FAIL",op),info+f" -> {tr.doc}"); continue
    M=L1[len(L0b):len(L1)-len(L0a)]
    Sx=leafs(toks(type("X",(),{"content":sl.content})))
    if not subseq_dp(M,Sx): note(("MIDDLE-FAIL",op),info+f" -> {tr.doc}"); continue
    if op.startswith("delete") and any(t[0]=="c" for t in M): note(("DELETE-ADDS",op),info); continue
    C[("ok",op)]+=1
    # isolating check
    fa=d.resolve(a); fb=d.resolve(b)
    for dep in range(min(fa.depth,fb.depth),0,-1):
        if fa.node(dep).type.spec.get("isolating") and fa.start(dep)==fb.start(dep) if dep<=fb.depth else False:
            bN=fa.before(dep); aN=fa.after(dep)
            ok = T1[:bN+1]==T[:bN+1] and T1[len(T1)-(len(T)-aN+1):]==T[aN-1:]
            if not ok: note(("ISO-LEAK",op,fa.parent.type.name,fb.parent.type.name,fa.node(dep).type.name,tuple(c.type.name for c in sl.content.content)[:2],sl.open_start,sl.open_end),info+f" -> {tr.doc}")
            else: C[("iso-ok",op)]+=1
            break
for k,v in sorted(C.items(), key=lambda kv:-kv[1]): print(v,k,"\n    ",ex.get(k,"")[:700])
