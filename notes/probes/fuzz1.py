import sys, random, collections, traceback, json
sys.path.insert(0,"/root/scratch")
import gen as G
from gen import *
from prosemirror.transform import *
from prosemirror.transform.doc_attr_step import DocAttrStep
rng=random.Random(int(sys.argv[1])); N=int(sys.argv[2])
def rand_inline(rng, marks_ok=True, text_only=False):
    out=[]
    for _ in range(rng.randint(0,3)):
        r=rng.random()
        if r<0.75 or text_only:
            t="".join(rng.choice("abc ") for _ in range(rng.randint(1,3)))
            out.append(schema.text(t, G.rand_marks(rng) if marks_ok else None))
        elif r<0.9: out.append(schema.node("hard_break",None,None, G.rand_marks(rng)))
        else: out.append(schema.node("image",{"src":"i.png"},None, G.rand_marks(rng)))
    return Fragment.from_(out)
G.rand_inline=rand_inline
buckets=collections.Counter(); ex={}
def note(k, info):
    buckets[k]+=1
    if k not in ex or len(info)<len(ex[k]): ex[k]=info
def rslice(rng):
    src=rand_doc(rng); sa=rng.randint(0,src.content.size); sb=rng.randint(sa,src.content.size)
    return src.slice(sa,sb)
def rmark(rng): return rng.choice([schema.mark("em"),schema.mark("strong"),schema.mark("code"),schema.mark("link",{"href":"z"})])
for n in range(N):
    d=rand_doc(rng); size=d.content.size
    pos=sorted(rng.randint(0,size) for _ in range(4))
    k=rng.randrange(8)
    if k==0: st=ReplaceStep(pos[0],pos[3],rslice(rng),rng.random()<0.3)
    elif k==1:
        sl=rslice(rng); st=ReplaceAroundStep(pos[0],pos[3],pos[1],pos[2],sl,rng.randint(0,max(0,sl.size)),rng.random()<0.3)
    elif k==2: st=AddMarkStep(pos[0],pos[3],rmark(rng))
    elif k==3: st=RemoveMarkStep(pos[0],pos[3],rmark(rng))
    elif k==4: st=AddNodeMarkStep(pos[0],rmark(rng))
    elif k==5: st=RemoveNodeMarkStep(pos[0],rmark(rng))
    elif k==6: st=AttrStep(pos[0],rng.choice(["level","order","src","nope"]),rng.choice([1,2,None,"x"]))
    else: st=DocAttrStep(rng.choice(["meta","nope"]),rng.choice([1,None]))
    try:
        st=Step.from_json(schema, json.loads(json.dumps(st.to_json())))
        r=st.apply(d)
        if r.failed: buckets[("failed",type(st).__name__)]+=1; continue
        try: r.doc.check(); buckets[("okvalid",type(st).__name__)]+=1
        except Exception as e: note(("INVALID",type(st).__name__,str(e)[:40]), f"{d} {st.to_json()} -> {r.doc}")
    except ValueError as e:
        buckets[("valueerror",type(st).__name__,type(e).__name__)]+=1
    except Exception as e:
        tb=traceback.extract_tb(e.__traceback__)[-1]
        note(("INTERNAL",type(st).__name__,type(e).__name__,tb.name,tb.lineno,str(e)[:40]), f"{d} {st.to_json()}")
for k,v in sorted(buckets.items(), key=lambda kv:-kv[1]): print(v,k,"\n    ",ex.get(k,"")[:500])
