import sys, random, collections, traceback, warnings, signal
warnings.simplefilter("ignore")
src=open("/root/scratch/fuzz4.py").read().split("def _al")[0]
exec(src)
ZOO["list"]=mk(ln)
ZOO["table"]=mk({**ln,"table":{"group":"block","content":"row+"},"row":{"content":"cell+"},"cell":{"content":"block+","isolating":True}})
ZOO["iso"]=mk({**ln,"iso":{"group":"block","content":"block+","isolating":True}})
for k in ("fixed","structure"): ZOO.pop(k)
def _al(*a): raise TimeoutError("hang")
signal.signal(signal.SIGALRM,_al)
rng=random.Random(int(sys.argv[1])); N=int(sys.argv[2]); mode=sys.argv[3]; C=collections.Counter(); ex={}
def note(k,info):
    C[k]+=1
    if k not in ex or len(info)<len(ex[k]): ex[k]=info
def rand_op(rng,S,d):
    size=d.content.size; tr=Transform(d)
    op=rng.choice(["replace","replace","delete","add_mark","remove_mark","split","join","lift","wrap","insert","setblock","delete_range","replace_range"])
    a=rng.randint(0,size); b=rng.randint(a,min(size,a+rng.choice([0,1,2,5,50])))
    marks=[m for m in S.marks.values() if not m.attrs]
    signal.alarm(3)
    try:
        if op in("replace","replace_range"):
            s2=rdoc(rng,S); sa=rng.randint(0,s2.content.size); sb=rng.randint(sa,s2.content.size)
            getattr(tr,op)(a,b,s2.slice(sa,sb))
        elif op=="delete": tr.delete(a,b)
        elif op=="delete_range": tr.delete_range(a,b)
        elif op=="add_mark": tr.add_mark(a,b,rng.choice(marks).create())
        elif op=="remove_mark": tr.remove_mark(a,b,rng.choice([rng.choice(marks).create(),rng.choice(marks),None]))
        elif op=="split":
            dp=rng.randint(1,2)
            if can_split(d,a,dp): tr.split(a,dp)
        elif op=="join":
            if can_join(d,a): tr.join(a)
        elif op=="lift":
            r=d.resolve(a).block_range(d.resolve(b))
            if r is not None:
                t=lift_target(r)
                if t is not None: tr.lift(r,t)
        elif op=="wrap":
            r=d.resolve(a).block_range(d.resolve(b))
            if r is not None:
                cs=[t for t in S.nodes.values() if not t.is_leaf and not t.inline_content and t.name!="doc"]
                w=find_wrapping(r, rng.choice(cs))
                if w: tr.wrap(r,w)
        elif op=="insert": tr.insert(a, S.text("X"))
        elif op=="setblock":
            tb=[t for t in S.nodes.values() if t.is_textblock]
            tr.set_block_type(a,b,rng.choice(tb),None)
        signal.alarm(0)
    except BaseException as e:
        signal.alarm(0)
        tb=traceback.extract_tb(e.__traceback__)[-1]
        note(("OPEXC",op,type(e).__name__,tb.name,tb.lineno,str(e)[:40]), f"{d} {a} {b}")
        return None, op
    return tr, op
for name,S in ZOO.items():
  for n in range(N):
    d=rdoc(rng,S)
    if mode=="undo":
        # history of up to 4 ops
        tr=Transform(d); ops=[]
        cur=d
        allsteps=[]; alldocs=[]
        for _ in range(rng.randint(1,4)):
            t,op=rand_op(rng,S,cur)
            if t is None: continue
            ops.append(op); allsteps+=t.steps; alldocs+=t.docs; cur=t.doc
        if not allsteps: continue
        try:
            x=cur
            for i in range(len(allsteps)-1,-1,-1):
                r=allsteps[i].invert(alldocs[i]).apply(x)
                if r.failed: raise ValueError("invfail "+r.failed)
                x=r.doc
            if not x.eq(d): note((name,"UNDO-NEQ",tuple(ops)), f"{d} => {cur} => {x}")
            else: C[(name,"undo-ok")]+=1
        except Exception as e:
            note((name,"UNDOEXC",tuple(ops),type(e).__name__,str(e)[:40]), f"{d} :: {[s.to_json() for s in allsteps]}")
    elif mode=="commute":
        t1,op1=rand_op(rng,S,d); t2,op2=rand_op(rng,S,d)
        if not t1 or not t2 or len(t1.steps)!=1 or len(t2.steps)!=1: continue
        A,B=t1.steps[0],t2.steps[0]
        def hull(s):
            if hasattr(s,"from_"): return s.from_, s.to
            if hasattr(s,"pos"): return s.pos, s.pos+1
            return 0,0
        (a1,a2),(b1,b2)=hull(A),hull(B)
        if not (a2 < b1 or b2 < a1): C[(name,"overlap")]+=1; continue
        try:
            A2=A.map(B.get_map()); B2=B.map(A.get_map())
            if A2 is None or B2 is None: note((name,"DROPPED",op1,op2), f"{d} {A.to_json()} {B.to_json()}"); continue
            r1=B2.apply(t1.doc); r2=A2.apply(t2.doc)
            if r1.failed or r2.failed: note((name,"FAILED",op1,op2,(r1.failed or r2.failed)[:40]), f"{d} {A.to_json()} {B.to_json()}"); continue
            if not r1.doc.eq(r2.doc): note((name,"DIVERGE",op1,op2), f"{d} {A.to_json()} {B.to_json()} -> {r1.doc} vs {r2.doc}")
            else: C[(name,"commute-ok")]+=1
        except Exception as e:
            note((name,"EXC",op1,op2,type(e).__name__,str(e)[:40]), f"{d} {A.to_json()} {B.to_json()}")
for k,v in sorted(C.items(), key=lambda kv:(kv[0][0],-kv[1])): print(v,k,"\n    ",ex.get(k,"")[:500])
