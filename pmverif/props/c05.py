"""C05 — JSON serialisation of documents, slices, marks and steps is lossless."""
from __future__ import annotations

import copy
import json

from ..core import Ctx, call, require
from ..draw import Draw
from ..gen import ops as go
from ..gen import schemas
from ..gen import steps as gs
from ..gen.docs import docgen
from ..ref import plain as P
from ..ref import splice as S
from ..ref.stepmap import RefMap

ID = "C05"
RULE = (
    "schema from the zoo or random (attribute defaults include nested lists/dicts); objects: document, fragment, slice (open, closed, "
    "empty), mark, step of each of the eight built-in types (recorded by a Transform operation, perturbed, or random; attribute values "
    "None/int/float/str/non-BMP/nested list/dict). Each travels to_json -> json.dumps -> json.loads -> from_json. Steps are additionally "
    "applied, original and decoded, to the document they were made for and to two other documents. Non-trivial = object with a non-default "
    "attribute, a mark, an open side, or a step that applies successfully to at least one document; distinct by (kind, object)."
)
ASSUMPTIONS = [
    "slices whose content is non-empty but whose size is 0 are not generated (the documented API never produces them)",
    "equality of objects is plain-tree equality (type, attrs with ==, marks in order, text), checked next to the library's own eq",
]
LEVEL_TEXT = (
    "Generated-input search over objects of every serialisable kind: round trip through real JSON text must reproduce an equal object "
    "(plain-data view and library eq), the identical JSON again, the identical step effect and position map on several documents, and the "
    "produced JSON must not alias live data (deep mutation of the JSON must not change the object). Sampling."
)
LEVEL_NOTE = "Trusted: plain-data view in pmverif/ref/plain.py and gen/steps.describe_step as the meaning of 'equal'."
TECHNIQUE = "property-based round-trip testing (Hypothesis) with aliasing probe and differential step application"
BUDGET = {
    "quick": {"shards": 8, "examples": 900},
    "thorough": {"shards": 16, "examples": 20000},
}

ZOO_NAMES = schemas.GROUP_V + schemas.GROUP_X + schemas.MARK_VARIANTS
STEP_IDS = ["replace", "replaceAround", "addMark", "removeMark", "addNodeMark", "removeNodeMark", "attr", "docAttr"]


def generate(R: Draw, tier: str) -> dict:
    sref = schemas.pick_schema(R, ZOO_NAMES, p_random=0.35)
    lib, rs = schemas.get(sref)
    g = docgen(rs)
    doc = g.doc(R, R.weighted([("tiny", 1), ("small", 4), ("medium", 1)]))
    kind = R.weighted([("doc", 2), ("slice", 2), ("mark", 1), ("step", 8)])
    case = {"schema": sref, "doc": doc, "kind": kind}
    if kind == "slice":
        case["slice"] = gs.rand_slice(R, g, "small") if R.bool(0.8) else gs.closed_slice(R, g)
        if R.bool(0.2):
            case["slice"] = gs.hollow_slice(R, rs, doc) or case["slice"]
    elif kind == "mark":
        if rs.mark_names:
            case["marks"] = [g.mark(R, R.choice(rs.mark_names)) for _ in range(R.int(1, 3))]
        else:
            case["kind"] = "doc"
    elif kind == "step":
        n = P.size_of(doc["c"], rs.leaf_types)
        how = R.weighted([("genuine", 5), ("perturbed", 2), ("random", 4)])
        desc = None
        if how in ("genuine", "perturbed"):
            node = P.build(lib, doc)
            op = go.gen_op(R, g, lib, node, [k for k in go.ALL_OPS if k != "step"])
            tr, _status = go.run_history(lib, node, [op])
            if tr.steps:
                i = R.int(0, len(tr.steps) - 1)
                desc = gs.describe_step(tr.steps[i])
                # the document that step was made for
                case["doc"] = P.plain(tr.docs[i])
                case["op"] = op["op"]
                if how == "perturbed":
                    desc = gs.perturb_step(R, g, desc, n)
        if desc is None:
            desc = gs.random_step(R, g, doc, n)
            how = "random"
        case["step"] = desc
        case["how"] = how
        case["others"] = [g.doc(R, "small"), g.doc(R, "tiny")]
    if R.bool(0.3):
        case = _falsify(R, case)
    return case


_FALSY = ["", 0, [], {}, [0, ""], {"k": []}]


def _falsify(R: Draw, case: dict) -> dict:
    """Consistently (per attribute name, injectively) replace some attribute values in the whole case by falsy / nested
    JSON values - "", 0, [], {} are legitimate attribute values a decoder must not confuse with 'missing'."""
    table: dict = {}
    pool = {}

    def sub(name: str, v):  # noqa: ANN001, ANN202
        if v is None:
            return v
        key = (name, json.dumps(v, sort_keys=True))
        if key not in table:
            free = pool.setdefault(name, list(range(len(_FALSY))))
            if free and R.bool(0.5):
                table[key] = copy.deepcopy(_FALSY[free.pop(R.int(0, len(free) - 1))])
            else:
                table[key] = v
        return copy.deepcopy(table[key])

    def attrs(a: dict) -> dict:
        return {k: sub(k, v) for k, v in a.items()}

    def walk(x):  # noqa: ANN001, ANN202
        if isinstance(x, dict):
            if "t" in x and "a" in x and "m" in x:
                return {**{k: walk(v) for k, v in x.items() if k not in ("a", "m")}, "a": attrs(x["a"]), "m": [[m[0], attrs(m[1])] for m in x["m"]]}
            out = {}
            for k, v in x.items():
                if k == "mark" and isinstance(v, list) and len(v) == 2 and isinstance(v[1], dict):
                    out[k] = [v[0], attrs(v[1])]
                elif k == "value" and "attr" in x:
                    out[k] = sub(x["attr"], v)
                else:
                    out[k] = walk(v)
            return out
        if isinstance(x, list):
            if len(x) == 2 and isinstance(x[0], str) and isinstance(x[1], dict) and "t" not in x[1]:
                return [x[0], attrs(x[1])]
            return [walk(v) for v in x]
        return x

    schema = case["schema"]
    out = walk({k: v for k, v in case.items() if k != "schema"})
    out["schema"] = schema
    if table and any(json.dumps(v, sort_keys=True) != k[1] for k, v in table.items()):
        out["falsy"] = True
    return out


def _mutate_deep(j):  # noqa: ANN001, ANN202
    """Append to every list, add a key to every dict, at every depth (in place)."""
    if isinstance(j, dict):
        for v in list(j.values()):
            _mutate_deep(v)
        j["__poison__"] = ["x"]
    elif isinstance(j, list):
        for v in list(j):
            _mutate_deep(v)
        j.append("__poison__")


def _roundtrip(name: str, obj, to_json, from_json, view, ctx: Ctx):  # noqa: ANN001, ANN202
    j = call(f"{name}.to_json", to_json, obj)
    require(j.ok, f"{name}:to_json-raised", repr(j.exc))
    j1 = j.value
    try:
        text = json.dumps(j1)
    except (TypeError, ValueError) as e:
        require(False, f"{name}:not-plain-json", f"to_json() is not JSON-encodable: {e}")
    decoded = json.loads(text)
    require(decoded == j1, f"{name}:json-not-stable", f"json.loads(json.dumps(j)) != j for {text[:200]}")
    before = view(obj)
    pristine = copy.deepcopy(j1)
    y = call(f"{name}.from_json", from_json, copy.deepcopy(decoded))
    require(y.ok, f"{name}:from_json-raised", f"from_json({text[:200]}) raised {y.exc!r}")
    require(view(y.value) == before, f"{name}:not-equal", f"decoded object differs: {view(y.value)} vs {before}")
    j2 = call(f"{name}.to_json", to_json, y.value)
    require(j2.ok and j2.value == pristine, f"{name}:rejson-differs", f"re-serialised JSON differs: {j2.value if j2.ok else j2.exc!r} vs {pristine}")
    # aliasing: poisoning the produced JSON must not reach the live object
    _mutate_deep(j1)
    j3 = call(f"{name}.to_json", to_json, obj)
    require(j3.ok and j3.value == pristine, f"{name}:json-aliases-object", f"mutating to_json() output changed the object: now {json.dumps(j3.value, default=repr)[:300] if j3.ok else j3.exc!r}")
    require(view(obj) == before, f"{name}:json-aliases-object", "mutating to_json() output changed the object's plain view")
    return y.value, pristine


def check(case: dict, ctx: Ctx) -> None:
    from prosemirror.model import Fragment, Mark, Node, Slice
    from prosemirror.transform import Step

    lib, rs = schemas.get(case["schema"])
    doc_p = case["doc"]
    doc = P.build(lib, doc_p)
    kind = case["kind"]
    sk = case["schema"] if isinstance(case["schema"], str) else "random"
    if case.get("falsy"):
        ctx.label("attrs:falsy-or-nested-values")
    if kind == "doc":
        y, _ = _roundtrip("node", doc, lambda x: x.to_json(), lambda j: Node.from_json(lib, j), P.plain, ctx)
        e = call("eq", doc.eq, y)
        require(e.ok and e.value is True, "node:eq-false", "Node.eq(original, decoded) is False")
        y2 = call("node_from_json", lib.node_from_json, json.loads(json.dumps(doc.to_json())))
        require(y2.ok and P.plain(y2.value) == doc_p, "node:schema.node_from_json", "Schema.node_from_json differs")
        # JSON text input is accepted too
        y3 = call("from_json-str", Node.from_json, lib, json.dumps(doc.to_json()))
        require(y3.ok and P.plain(y3.value) == doc_p, "node:from_json-str", "Node.from_json(text) differs")
        for sub_p in doc_p["c"][:2]:
            sub = P.build(lib, sub_p)
            _roundtrip("node", sub, lambda x: x.to_json(), lambda j: Node.from_json(lib, j), P.plain, ctx)
        frag = doc.content
        if frag.size:
            _roundtrip("fragment", frag, lambda x: x.to_json(), lambda j: Fragment.from_json(lib, j), P.plain_fragment, ctx)
        else:
            j = call("fragment.to_json", frag.to_json)
            y = call("fragment.from_json", Fragment.from_json, lib, j.value)
            require(y.ok and P.plain_fragment(y.value) == [], "fragment:empty", "empty fragment does not round-trip")
        ctx.label("kind:doc")
        if any(c["m"] or c["a"] for c in doc_p["c"]) or doc_p["a"]:
            ctx.nontrivial(["doc", sk, doc_p])
        return
    if kind == "slice":
        sl_p = case["slice"]
        sl = P.build_slice(lib, sl_p)
        y, _ = _roundtrip("slice", sl, lambda x: x.to_json(), lambda j: Slice.from_json(lib, j), P.plain_slice, ctx)
        e = call("eq", sl.eq, y)
        require(e.ok and e.value is True, "slice:eq-false", "Slice.eq(original, decoded) is False")
        em = call("empty", lambda: Slice.from_json(lib, json.loads(json.dumps(Slice.empty.to_json()))))
        require(em.ok and P.plain_slice(em.value) == {"c": [], "os": 0, "oe": 0}, "slice:empty", "Slice.empty does not round-trip")
        ctx.label("kind:slice")
        ctx.label(f"slice:open={min(sl_p['os'],2)},{min(sl_p['oe'],2)}")
        if sl_p["c"] and S.slice_size(sl_p, rs.leaf_types) == 0:
            ctx.label("slice:hollow-size-0")
        if sl_p["os"] or sl_p["oe"] or sl_p["c"]:
            ctx.nontrivial(["slice", sk, sl_p])
        return
    if kind == "mark":
        for m_p in case["marks"]:
            m = P.build_mark(lib, m_p)
            y, _ = _roundtrip("mark", m, lambda x: x.to_json(), lambda j: Mark.from_json(lib, j), P.plain_mark, ctx)
            e = call("eq", m.eq, y)
            require(e.ok and e.value is True, "mark:eq-false", "Mark.eq(original, decoded) is False")
            y2 = call("mark_from_json", lib.mark_from_json, json.loads(json.dumps(m.to_json())))
            require(y2.ok and P.plain_mark(y2.value) == m_p, "mark:schema.mark_from_json", "differs")
            if m_p[1]:
                ctx.nontrivial(["mark", sk, m_p])
        # marks obtained from the schema without attributes are the type's SHARED default instance
        for name in rs.mark_names:
            d = rs.default_attrs("mark", name)
            if d:
                shared = call("schema.mark", lib.mark, name)
                require(shared.ok, "mark:create-raised", repr(shared.exc))
                _roundtrip("mark", shared.value, lambda x: x.to_json(), lambda j: Mark.from_json(lib, j), P.plain_mark, ctx)
                again = call("schema.mark", lib.mark, name)
                require(again.ok and P.plain_mark(again.value) == [name, d], "mark:shared-instance-changed", f"schema.mark({name!r}) no longer has the default attributes: {P.plain_mark(again.value) if again.ok else again.exc!r}")
                txt = lib.text("x", [shared.value])
                _roundtrip("node", txt, lambda x: x.to_json(), lambda j: Node.from_json(lib, j), P.plain, ctx)
                ctx.label("mark:shared-default-instance")
                ctx.nontrivial(["mark-shared", sk, name])
        ctx.label("kind:mark")
        return
    # ---- steps
    desc = case["step"]
    step = gs.build_step(lib, desc)
    before_desc = gs.describe_step(step)
    y, j = _roundtrip("step", step, lambda x: x.to_json(), lambda jj: Step.from_json(lib, jj), gs.describe_step, ctx)
    require(j.get("stepType") == gs.JSON_ID[desc["k"]], "step:json-id", f"stepType {j.get('stepType')!r} for {desc['k']}")
    require(type(y) is type(step), "step:wrong-class", f"decoded as {type(y).__name__}")
    ys = call("from_json-str", Step.from_json, lib, json.dumps(j))
    require(ys.ok and gs.describe_step(ys.value) == before_desc, "step:from_json-str", "Step.from_json(text) differs")
    # identical effect and map on several documents
    applied = 0
    for dp in [doc_p] + case.get("others", []):
        d = P.build(lib, dp)
        r1 = call("apply", step.apply, d, reject=(Exception,))
        r2 = call("apply", y.apply, d, reject=(Exception,))
        o1 = ("raise", type(r1.exc).__name__) if not r1.ok else (("fail", None) if r1.value.failed else ("ok", P.plain(r1.value.doc)))
        o2 = ("raise", type(r2.exc).__name__) if not r2.ok else (("fail", None) if r2.value.failed else ("ok", P.plain(r2.value.doc)))
        require(o1 == o2, "step:effect-differs", f"original {o1[0]} vs decoded {o2[0]} on a document")
        if o1[0] == "ok":
            applied += 1
    m1 = call("get_map", step.get_map)
    m2 = call("get_map", y.get_map)
    require(m1.ok and m2.ok, "step:get_map-raised", "get_map raised")
    r1 = RefMap.from_stored(m1.value.ranges, m1.value.inverted)
    r2 = RefMap.from_stored(m2.value.ranges, m2.value.inverted)
    require(r1.triples == r2.triples, "step:map-differs", f"{m1.value} vs {m2.value}")
    for pos in range(0, r1.max_pos() + 3):
        for assoc in (-1, 1):
            require(m1.value.map(pos, assoc) == m2.value.map(pos, assoc), "step:map-differs", f"map({pos},{assoc})")
    ctx.label("kind:step")
    ctx.label("step:" + desc["k"])
    ctx.label("step-source:" + case.get("how", "?"))
    if applied:
        ctx.label("step:applies")
        ctx.nontrivial(["step", sk, desc])
    # registry: every published id decodes
    for sid in STEP_IDS:
        from prosemirror.transform.step import STEPS_BY_ID

        require(sid in STEPS_BY_ID, "step:registry", f"step id {sid!r} not registered")
    _ = S
