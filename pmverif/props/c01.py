"""C01 — applying a step never yields a schema-invalid document."""
from __future__ import annotations

import json

from ..core import Ctx, Violation, call, require
from ..draw import Draw
from ..gen import ops as go
from ..gen import schemas
from ..gen import steps as gs
from ..gen.docs import docgen
from ..ref import marks as rm
from ..ref import plain as P
from ..ref import splice as S
from ..ref import validate as V

ID = "C01"
RULE = (
    "schema from the zoo or random; valid document; a step of each of the eight types in four classes: genuine (recorded by a Transform "
    "operation on this document), transplanted (genuine for another document, positions clipped into range), perturbed (one field of a "
    "genuine step changed: positions +-1..3, gap, insert, structure flag, slice swapped, wrapper node type inside a wrap slice replaced), "
    "random (all fields random in range; 8% with ordering violations such as from > to). The step travels to_json -> json text -> "
    "Step.from_json before apply. Non-trivial = the step applied and changed the document (validator ran on a new tree) or was refused; "
    "distinct by (schema, document, step)."
)
ASSUMPTIONS = [
    "payload validity: every node of the step's slice that is closed and does not lie on the path to a ReplaceAround insert position is "
    "schema-valid, marks exist in the schema (cases violating this are generated only by accident and are skipped, counted)",
    "JSON with missing keys is outside the quantifier (not generated)",
]
LEVEL_TEXT = (
    "Generated-input search over (document, step) pairs of all eight step types, biased to plausible-but-wrong steps; every returned "
    "document is judged by a reference validator built from the schema spec (content expressions by derivatives, allowed marks, canonical "
    "mark sets); exceptions are classified by the stated policy (ValueError family = reported failure, anything else = internal error)."
)
LEVEL_NOTE = "Trusted: pmverif/ref/validate.py as 'fully valid under the schema'; exception policy of DESIGN.md §1.3."
TECHNIQUE = "property-based testing (Hypothesis) with mutation-style step generation against a reference schema validator"
BUDGET = {
    "quick": {"shards": 8, "examples": 1000},
    "thorough": {"shards": 16, "examples": 25000},
}

ZOO_NAMES = schemas.GROUP_V + schemas.GROUP_X + schemas.MARK_VARIANTS
OPS = [k for k in go.ALL_OPS if k != "step"]


def generate(R: Draw, tier: str) -> dict:
    how = R.weighted([("genuine", 3), ("transplanted", 2), ("perturbed", 5), ("random", 3), ("mark-focus", 2), ("reopen-focus", 2), ("join-focus", 2), ("gap-focus", 2)])
    if how == "mark-focus":
        sref = R.choice(["big_small", "remark_user", "asym_chain"])
        if R.bool(0.8):
            spec = schemas.spec_of(sref)
            order = R.shuffle(list(spec["marks"]))
            sref = {"nodes": spec["nodes"], "marks": {m: spec["marks"][m] for m in order}}
    else:
        sref = schemas.pick_schema(R, ZOO_NAMES, p_random=0.3)
    lib, rs = schemas.get(sref)
    g = docgen(rs)
    doc = g.doc(R, R.weighted([("tiny", 1), ("small", 5), ("medium", 2)]))
    n = P.size_of(doc["c"], rs.leaf_types)
    desc = None
    if how == "mark-focus":
        # a node carrying marks that interact with the mark being added (displaced / refusing / bystander)
        from .c13 import _exclusion_focus

        f = _exclusion_focus(R, g, rs, doc)
        if f is not None:
            doc, op = f
            n = P.size_of(doc["c"], rs.leaf_types)
            if R.bool(0.6):
                desc = {"k": "addMark", "from": op["from"], "to": op["to"], "mark": op["mark"]}
            else:
                desc = {"k": "addNodeMark", "pos": min(n, op["from"] + 2) if R.bool(0.3) else op["from"], "mark": op["mark"]}
    if how == "gap-focus":
        # hand-made around-steps whose gap is not a flat range (across siblings, or open on one side only) or keeps
        # inline content inside a text slice
        for _ in range(3):
            desc = gs.sibling_gap_step(R, g, doc) if R.bool(0.7) else gs.inline_gap_step(R, g, doc)
            if desc is not None:
                if R.bool(0.5) and desc["slice"]["c"] == []:
                    desc["slice"] = gs.closed_slice(R, g)
                    desc["insert"] = R.int(0, S.slice_size(desc["slice"], rs.leaf_types))
                break
            doc = g.doc(R, R.weighted([("small", 3), ("medium", 3)]))
            n = P.size_of(doc["c"], rs.leaf_types)
    if how == "join-focus":
        for _ in range(3):
            desc = gs.sibling_join_step(R, g, doc)
            if desc is not None:
                break
            doc = g.doc(R, R.weighted([("small", 3), ("medium", 3)]))
            n = P.size_of(doc["c"], rs.leaf_types)
    if how == "reopen-focus":
        # a genuine wrap step re-spelled with its parent open on one side (wrappers below the open depth), then one
        # wrapper type swapped or another field moved: the payload the gap lands in must still be checked
        for _ in range(4):
            node = P.build(lib, doc)
            op = go.gen_op(R, g, lib, node, ["wrap"], steer=1.0)
            tr, _ = go.run_history(lib, node, [op])
            if tr.steps:
                d0 = gs.describe_step(tr.steps[0])
                ro = gs.reopen_wrap_step(R, g, P.plain(tr.docs[0]), d0) if d0["k"] == "around" else None
                if ro is not None:
                    doc = P.plain(tr.docs[0])
                    n = P.size_of(doc["c"], rs.leaf_types)
                    desc = gs.perturb_step(R, g, ro, n, force="wrapper" if R.bool(0.6) else None) if R.bool(0.85) else ro
                    break
            doc = g.doc(R, R.weighted([("small", 5), ("medium", 2)]))
            n = P.size_of(doc["c"], rs.leaf_types)
    if how in ("genuine", "perturbed"):
        node = P.build(lib, doc)
        # structure-changing operations are where ReplaceAround steps come from
        kinds = ["wrap", "lift", "set_block_type", "set_node_markup", "split", "join"] if R.bool(0.6) else OPS
        op = go.gen_op(R, g, lib, node, kinds, steer=0.9)
        tr, _ = go.run_history(lib, node, [op])
        if tr.steps:
            i = R.int(0, len(tr.steps) - 1)
            desc = gs.describe_step(tr.steps[i])
            doc = P.plain(tr.docs[i])
            n = P.size_of(doc["c"], rs.leaf_types)
            if desc["k"] == "around" and R.bool(0.5):
                ro = gs.reopen_wrap_step(R, g, doc, desc)
                if ro is not None:
                    desc = ro
                    how = how + "+reopened"
            if how.startswith("perturbed"):
                desc = gs.perturb_step(R, g, desc, n)
    elif how == "transplanted":
        other = g.doc(R, "small")
        node = P.build(lib, other)
        op = go.gen_op(R, g, lib, node, OPS, steer=0.9)
        tr, _ = go.run_history(lib, node, [op])
        if tr.steps:
            desc = gs.clip_step(gs.describe_step(tr.steps[R.int(0, len(tr.steps) - 1)]), n)
    if desc is None:
        desc = gs.random_step(R, g, doc, n)
        how = "random"
    return {"schema": sref, "doc": doc, "step": desc, "how": how}


def _open_path_problems(rs, children: list, os_: int, oe: int, insert_path: list | None) -> list[str]:  # noqa: ANN001
    """Problems of the slice payload, ignoring the content sequence of open nodes and of nodes on the insert path."""
    out: list[str] = []
    n = len(children)
    for i, c in enumerate(children):
        open_s = os_ > 0 and i == 0
        open_e = oe > 0 and i == n - 1
        on_path = insert_path is not None and insert_path and insert_path[0] == i
        if c["t"] not in rs.nodes:
            out.append("unknown type")
            continue
        if any(m[0] not in rs.marks for m in c["m"]) or not rm.canonical(rs, c["m"]):
            out.append("bad marks")
        if on_path and not (open_s or open_e) and len(insert_path) > 1:
            # a closed node further out than the node the gap lands in: its child sequence is fully known
            if not rs.accepts(c["t"], [k["t"] for k in c["c"]]):
                out.append("invalid closed node on the insert path")
        if open_s or open_e or on_path:
            out.extend(
                _open_path_problems(
                    rs,
                    c["c"],
                    os_ - 1 if open_s else 0,
                    oe - 1 if open_e else 0,
                    insert_path[1:] if on_path else None,
                )
            )
            # children of an incomplete node must still carry marks it allows
            for k in c["c"]:
                for m in k["m"]:
                    if m[0] in rs.marks and not rs.allows_mark(c["t"], m[0]):
                        out.append("disallowed mark in open node")
        else:
            out.extend(V.node_problems(rs, c))
    return out


def _insert_path(rs, children: list, pos: int) -> list | None:  # noqa: ANN001
    """Child-index path to the node strictly containing content position `pos` ([] = top level)."""
    off = 0
    for i, c in enumerate(children):
        size = P.size_of([c], rs.leaf_types)
        if off < pos < off + size and c["t"] != "text" and not rs.leaf[c["t"]]:
            sub = _insert_path(rs, c["c"], pos - off - 1)
            return [i] + (sub or [])
        off += size
    return []


def payload_problems(rs, d: dict) -> list[str]:  # noqa: ANN001
    k = d["k"]
    if k == "replace":
        sl = d["slice"]
        return _open_path_problems(rs, sl["c"], sl["os"], sl["oe"], None)
    if k == "around":
        sl = d["slice"]
        path = _insert_path(rs, sl["c"], d["insert"] + sl["os"])
        return _open_path_problems(rs, sl["c"], sl["os"], sl["oe"], path)
    if k in ("addMark", "removeMark", "addNodeMark", "removeNodeMark"):
        return [] if d["mark"][0] in rs.marks else ["unknown mark"]
    return []


def check(case: dict, ctx: Ctx) -> None:
    from prosemirror.transform import Step

    lib, rs = schemas.get(case["schema"])
    doc_p = case["doc"]
    assert V.valid(rs, doc_p), V.node_problems(rs, doc_p)[:2]
    desc = case["step"]
    if payload_problems(rs, desc):
        ctx.label("skipped:payload-invalid")
        return
    doc = P.build(lib, doc_p)
    step0 = gs.build_step(lib, desc)
    j = call("to_json", step0.to_json)
    require(j.ok, "to_json:raised", repr(j.exc))
    wire = json.loads(json.dumps(j.value))
    s = call("from_json", Step.from_json, lib, wire)
    ctx.label("class:" + case.get("how", "?"))
    ctx.label("step:" + desc["k"])
    sk = case["schema"] if isinstance(case["schema"], str) else "random"
    if not s.ok:
        ctx.label("outcome:from_json-rejected")
        return
    r = call("apply", s.value.apply, doc)
    ordering = (desc.get("from", 0) > desc.get("to", 0)) or (
        desc["k"] == "around" and not (desc["from"] <= desc["gapFrom"] <= desc["gapTo"] <= desc["to"])
    )
    if ordering:
        ctx.label("ordering-violation")
    if not r.ok:
        ctx.label("outcome:raised-valueerror")
        ctx.nontrivial([sk, doc_p, desc])
        return
    res = r.value
    if res.failed:
        require(res.doc is None, "result:failed-with-doc", "failed result carries a document")
        ctx.label("outcome:failed")
        ctx.label("failed:" + desc["k"])
        ctx.nontrivial([sk, doc_p, desc])
        return
    require(res.doc is not None, "result:ok-without-doc", "ok result without a document")
    got = P.plain(res.doc)
    probs = V.node_problems(rs, got)
    if probs:
        raise Violation(
            "apply:invalid-document",
            f"{desc['k']} step applied and returned an invalid document: {probs[0]}",
            detail={"problems": probs[:3]},
        )
    ctx.label("outcome:ok")
    ctx.label("ok:" + desc["k"])
    if got != doc_p:
        ctx.label("ok:changed")
        ctx.nontrivial([sk, doc_p, desc])
