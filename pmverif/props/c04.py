"""C04 — every recorded change can be undone exactly and replayed exactly."""
from __future__ import annotations

from ..core import Ctx, Hang, call, fail_unless_known, require, time_limit
from ..draw import Draw
from ..gen import ops as go
from ..gen import schemas
from ..gen import steps as gs
from ..gen.docs import docgen
from ..ref import marks as rm
from ..ref import plain as P
from ..ref import splice as S
from ..ref import validate as V
from ..ref.stepmap import RefMap

ID = "C04"
RULE = (
    "histories: group-V schema, valid document, 1..8 (quick) / 1..14 (thorough) Transform operations drawn one after the other for the "
    "CURRENT document (replace family, mark operations, split, join, lift, wrap, set_block_type, set_node_markup, declared attributes, node "
    "marks); rejected operations stay in the history. The invariants run after EVERY operation. single steps: any schema (zoo, mark variants, "
    "random); one ReplaceStep / ReplaceAroundStep / AttrStep (declared attribute) / DocAttrStep / AddNodeMarkStep / RemoveNodeMarkStep that "
    "applies. Non-trivial = a history with >=2 recorded steps containing a ReplaceAround step or a rejected operation between accepted ones; "
    "a single step that changed the document. Distinct by (schema, document, operations)."
)
ASSUMPTIONS = [
    "equality of documents is plain-tree equality including mark order (Node.eq semantics)",
    "raw Transform.step(...) of arbitrary mark steps is not part of histories: AddMarkStep/RemoveMarkStep are only exact inverses for the "
    "ranges the mark operations compute",
]
LEVEL_TEXT = (
    "Model-based history testing: operation sequences are generated statefully (each operation is drawn for the document produced by the "
    "previous ones), and after every operation the recorded steps/docs/maps are re-checked: alignment, replay from the start, undo by "
    "inverted steps in reverse order back to the initial document, and inverted-step maps against inverted maps on all positions. Sampling."
)
LEVEL_NOTE = "Trusted: plain-tree equality; RefMap for comparing maps as functions."
TECHNIQUE = "stateful property-based testing (Hypothesis-drawn operation histories) with replay/undo invariants after every step"
BUDGET = {
    "quick": {"shards": 8, "examples": 1200},
    "thorough": {"shards": 16, "examples": 9000},
}

HIST_OPS = [k for k in go.ALL_OPS if k not in ("step",)]
SINGLE_ZOO = schemas.GROUP_V + schemas.GROUP_X + schemas.MARK_VARIANTS * 2


def _declared_only(op: dict) -> bool:
    return not (op["op"] in ("set_node_attribute", "set_doc_attribute") and op["attr"] == "undeclared")


def generate(R: Draw, tier: str) -> dict:
    if R.bool(0.55):
        sref = R.choice(schemas.GROUP_V)
        lib, rs = schemas.get(sref)
        g = docgen(rs)
        doc = g.doc(R, R.weighted([("small", 4), ("medium", 3)]))
        ops = []
        first = None
        if rs.mark_names and R.bool(0.3):
            # neighbouring text with marks of one type and different attributes (link a | link b), then a mark
            # operation across them: the steps it records (one removal per displaced mark) must undo exactly
            from .c13 import _removal_focus

            f = _removal_focus(R, g, rs, doc)
            if f is not None:
                doc, rop = f
                m = rop.pop("focus_type")
                first = rop if R.bool(0.4) else {"op": "add_mark", "from": rop["from"], "to": rop["to"], "mark": g.mark(R, m)}
        cur = P.build(lib, doc)
        n_ops = R.int(1, 8 if tier == "quick" else 14)
        for j in range(n_ops):
            op = first if (j == 0 and first is not None) else go.gen_op(R, g, lib, cur, HIST_OPS)
            if not _declared_only(op) or not go.op_in_domain(rs, P.plain(cur), op, declared_attrs_only=True):
                continue
            ops.append(op)
            tr, st = go.run_history(lib, cur, [op])
            if st and (st[0] == "hang" or st[0].startswith("crash")):
                break
            cur = tr.doc
        return {"kind": "history", "schema": sref, "doc": doc, "ops": ops}
    sref = schemas.pick_schema(R, SINGLE_ZOO, p_random=0.35)
    if isinstance(sref, str) and sref in schemas.MARK_VARIANTS and R.bool(0.5):
        spec = schemas.spec_of(sref)
        order = R.shuffle(list(spec["marks"]))
        sref = {"nodes": spec["nodes"], "marks": {m: spec["marks"][m] for m in order}}
    lib, rs = schemas.get(sref)
    g = docgen(rs)
    doc = g.doc(R, "small")
    node = P.build(lib, doc)
    n = node.content.size
    desc = None
    how = R.weighted([("op", 5), ("random", 4), ("nodemark", 5 if rs.mark_names else 0), ("retyped", 2)])
    if how == "retyped":
        # ONE node open on both sides with other markup than the textblock(s) it is joined into, dropped between two
        # positions at the same depth: the merged node must keep the document's markup, and undo must restore it
        from ..ref import resolve as RR

        rdoc = RR.N(doc, rs)
        spots = []
        for k_, s_, _par, _i, d_ in RR.all_nodes(rdoc):
            if rs.textblock.get(k_.t):
                spots += [(p, d_) for p in range(s_ + 1, s_ + k_.size)]
        sl = gs.retyped_open_slice(R, g, doc)
        if spots and sl is not None and sl["os"] == 1:
            a, da = R.choice(spots)
            later = [p for p, d_ in spots if p >= a and d_ == da and p <= a + 12]
            b = R.choice(later) if later else a
            desc = {"k": "replace", "from": a, "to": b, "slice": sl, "structure": False}
    if how == "nodemark":
        # a node that already carries marks, and a mark that interacts with them (exclusion / same type)
        from ..ref import resolve as RR

        pairs = [(m1, m2) for m1 in rs.mark_names for m2 in rs.mark_names if m1 != m2 and rs.excludes(m2, m1)]
        hosts = [
            (k, s_, par)
            for k, s_, par, _i, _d in RR.all_nodes(RR.N(doc, rs))
            if not k.is_text and par is not None and rs.inline[k.t]
        ]
        if pairs and hosts and R.bool(0.4):
            # construct it: an inline node carrying m1 (and perhaps a bystander), and a node mark of ANOTHER type
            # that excludes m1 - the new mark takes m1's place, undo has to bring m1 back
            from ..gen import mutate as mu

            k, pos, par = R.choice(hosts)
            ok = [(m1, m2) for m1, m2 in pairs if rs.allows_mark(par.t, m1) and rs.allows_mark(par.t, m2)]
            if ok:
                m1, m2 = R.choice(ok)
                ms = rm.ref_add(rs, g.mark(R, m1), g.mark_set(R, par.t, 0.3))
                if any(x[0] == m1 for x in ms):
                    path = next((p_ for p_ in mu.paths(doc) if mu.get_at(doc, p_) is k.p), None)
                    if path is not None:
                        doc = mu.replace_at(doc, path, lambda n_: {**n_, "m": ms})
                        node = P.build(lib, doc)
                        if not V.node_problems(rs, doc):
                            desc = {"k": "addNodeMark", "pos": pos, "mark": g.mark(R, m2)}
        marked = [(k, s_) for k, s_, _par, _i, _d in RR.all_nodes(RR.N(doc, rs)) if k.p["m"] and not k.is_text]
        if marked and desc is None:
            k, pos = R.choice(marked)
            present = [m[0] for m in k.p["m"]]
            inter = [m for m in rs.mark_names if m in present or any(rs.excludes(m, x) or rs.excludes(x, m) for x in present)]
            mname = R.choice(inter) if inter and R.bool(0.8) else R.choice(rs.mark_names)
            cross = [m for m in rs.mark_names if m not in present and any(rs.excludes(m, x) or rs.excludes(x, m) for x in present)]
            if cross and R.bool(0.5):
                mname = R.choice(cross)  # another TYPE that displaces (or is refused by) a mark on the node
            if R.bool(0.7):
                desc = {"k": "addNodeMark", "pos": pos, "mark": g.mark(R, mname)}
            else:
                rmark = R.choice(k.p["m"]) if R.bool(0.6) else g.mark(R, mname)
                with_attrs = [m for m in k.p["m"] if rs.marks[m[0]].get("attrs")]
                if with_attrs and R.bool(0.4):
                    # same type as a mark on the node, other attributes: a removal that must remove nothing
                    base = R.choice(with_attrs)
                    for _ in range(4):
                        rmark = g.mark(R, base[0])
                        if rmark != base:
                            break
                desc = {"k": "removeNodeMark", "pos": pos, "mark": rmark}
    if how == "op":
        kinds = ["replace", "replace_range", "delete", "insert", "wrap", "lift", "split", "join", "set_node_markup", "set_block_type", "add_node_mark", "remove_node_mark", "set_node_attribute", "set_doc_attribute"]
        op = go.gen_op(R, g, lib, node, kinds, steer=0.9)
        tr, _ = go.run_history(lib, node, [op])
        if tr.steps:
            i = R.int(0, len(tr.steps) - 1)
            desc = gs.describe_step(tr.steps[i])
            doc = P.plain(tr.docs[i])
    if desc is None:
        for _ in range(4):
            desc = gs.random_step(R, g, doc, n)
            if desc["k"] in ("replace", "around", "attr", "docAttr", "addNodeMark", "removeNodeMark"):
                break
    return {"kind": "single", "schema": sref, "doc": doc, "step": desc}


def maps_agree(m1, m2, limit: int) -> str | None:  # noqa: ANN001
    for pos in range(limit + 1):
        for assoc in (-1, 1):
            a = m1.map_result(pos, assoc)
            b = m2.map_result(pos, assoc)
            if (a.pos, a.deleted) != (b.pos, b.deleted):
                return f"map_result({pos},{assoc}): ({a.pos},{a.deleted}) vs ({b.pos},{b.deleted})"
    return None


def undo_check(ctx: Ctx, lib, rs, steps: list, docs: list, final, initial_p: dict, tag: str, sub: dict) -> None:  # noqa: ANN001
    """docs[i] is the document steps[i] applied to; final = result of the last step."""
    n = len(steps)
    cur = final
    for i in range(n):
        # a step boundary between the two halves of a surrogate pair is no position of the document in this port
        # (a Python str cannot hold half a character): such hand-made steps are outside the domain
        d_ = gs.describe_step(steps[i])
        T_ = P.tokens_of(P.plain(docs[i])["c"], rs.leaf_types)
        if any(S.splits_pair_at(T_, d_[f]) for f in ("from", "to", "gapFrom", "gapTo") if f in d_ and 0 <= d_[f] <= len(T_)):
            ctx.label("skipped:step-boundary-inside-surrogate-pair")
            return
    for i in range(n - 1, -1, -1):
        inv = call("invert", steps[i].invert, docs[i])
        if not inv.ok:
            fail_unless_known(ctx, ID, "undo:invert-raised", {**sub, "step": gs.describe_step(steps[i]), "doc_before": P.plain(docs[i])}, f"{tag}invert of step {i} ({type(steps[i]).__name__}) raised {inv.exc!r}")
            return
        r = call("apply-inverse", inv.value.apply, cur)
        step_sub = {**sub, "step": gs.describe_step(steps[i]), "doc_before": P.plain(docs[i])}
        if not r.ok or r.value.failed:
            fail_unless_known(ctx, ID, "undo:inverse-fails", step_sub, f"{tag}inverse of step {i} ({gs.describe_step(steps[i])['k']}) does not apply: {r.value.failed if r.ok else r.exc!r}")
            return
        cur = r.value.doc
        exp = P.plain(docs[i])
        got = P.plain(cur)
        if got != exp:
            fail_unless_known(ctx, ID, "undo:not-exact", step_sub, f"{tag}undoing step {i} ({gs.describe_step(steps[i])['k']}) gives {got['c'] if got['c'] != exp['c'] else got['a']}, expected {exp['c'] if got['c'] != exp['c'] else exp['a']}")
            return
        # inverted step's map == inverted map
        m_inv_step = call("get_map", inv.value.get_map)
        m_step = call("get_map", steps[i].get_map)
        require(m_inv_step.ok and m_step.ok, "map:raised", "get_map raised")
        why = maps_agree(m_inv_step.value, m_step.value.invert(), docs[i + 1].content.size + 2 if i + 1 < n else final.content.size + 2)
        if why is not None:
            fail_unless_known(ctx, ID, "undo:inverse-map-differs", step_sub, f"{tag}step {i}: map of the inverted step differs from the inverted map: {why}")
            return
    require(P.plain(cur) == initial_p, "undo:not-initial", f"{tag}undoing all steps does not restore the initial document")


def check(case: dict, ctx: Ctx) -> None:
    from prosemirror.transform import Transform

    if not schemas.in_domain(case["schema"]):
        ctx.label("skipped:schema-not-well-founded")
        return
    lib, rs = schemas.get(case["schema"])
    doc_p = case["doc"]
    assert not V.node_problems(rs, doc_p)
    doc = P.build(lib, doc_p)
    sk = case["schema"] if isinstance(case["schema"], str) else "random"
    if case["kind"] == "single":
        desc = case["step"]
        if desc["k"] in ("addMark", "removeMark"):
            ctx.label("skipped:mark-step")
            return
        if desc["k"] == "attr":
            from ..ref import resolve as RR

            tgt = RR.node_at(RR.N(doc_p, rs), desc["pos"])
            if tgt is None or desc["attr"] not in (rs.nodes[tgt["t"]].get("attrs") or {}):
                ctx.label("skipped:undeclared-attr")
                return
        if desc.get("from", 0) > desc.get("to", 0) or (
            desc["k"] == "around" and not (desc["from"] <= desc["gapFrom"] <= desc["gapTo"] <= desc["to"])
        ):
            ctx.label("skipped:not-a-range")  # 'any range' = from <= (gapFrom <= gapTo <=) to
            return
        step = gs.build_step(lib, desc)
        r = call("apply", step.apply, doc, reject=(Exception,))
        if not r.ok or r.value.failed:
            ctx.label("single:not-applicable")
            return
        after = r.value.doc
        ctx.label("single:" + desc["k"])
        sub = {"mode": "c04", "schema": case["schema"]}
        undo_check(ctx, lib, rs, [step], [doc, after], after, doc_p, "", sub)
        if P.plain(after) != doc_p:
            ctx.label("single:changed")
            ctx.nontrivial([sk, doc_p, desc])
        return
    # ---- history
    tr = Transform(doc)
    statuses = []
    sub = {"mode": "c04", "schema": case["schema"]}
    for j, op in enumerate(case["ops"]):
        n_before = len(tr.steps)
        if not go.op_in_domain(rs, P.plain(tr.doc), op, declared_attrs_only=True):
            statuses.append("skipped")
            continue
        try:
            with time_limit(5.0):
                go.apply_op(tr, lib, op)
            statuses.append("ok" if len(tr.steps) > n_before else "noop")
        except ValueError:
            statuses.append("rejected")
        except (Exception, Hang):  # noqa: BLE001  totality is C11/C12's business
            statuses.append("crashed")
            ctx.label("op:crashed-elsewhere")
        tag = f"after op {j} ({op['op']}, {statuses[-1]}): "
        n = len(tr.steps)
        require(len(tr.docs) == n and len(tr.mapping.maps) == n, "history:misaligned", f"{tag}{n} steps, {len(tr.docs)} docs, {len(tr.mapping.maps)} maps")
        require(P.plain(tr.before) == doc_p, "history:before-changed", f"{tag}Transform.before is no longer the starting document")
        require(bool(tr.doc_changed()) == (n > 0), "history:doc_changed", f"{tag}doc_changed() = {tr.doc_changed()} with {n} steps")
        # replay from the start
        cur = doc
        docs = list(tr.docs) + [tr.doc]
        for i in range(n):
            require(P.plain(docs[i]) == P.plain(cur), "history:docs-misaligned", f"{tag}docs[{i}] is not the document step {i} was applied to")
            r = call("replay", tr.steps[i].apply, cur)
            require(r.ok and not r.value.failed, "history:replay-fails", f"{tag}recorded step {i} does not re-apply: {r.value.failed if r.ok else r.exc!r}")
            cur = r.value.doc
            m1 = RefMap.from_stored(list(tr.mapping.maps[i].ranges), tr.mapping.maps[i].inverted)
            gm = tr.steps[i].get_map()
            m2 = RefMap.from_stored(list(gm.ranges), gm.inverted)
            require(m1.triples == m2.triples, "history:map-misaligned", f"{tag}mapping.maps[{i}] = {tr.mapping.maps[i]} but step map = {gm}")
        require(P.plain(cur) == P.plain(tr.doc), "history:replay-differs", f"{tag}replaying the recorded steps does not give Transform.doc")
        if statuses[-1] in ("ok", "crashed") or j == len(case["ops"]) - 1:
            undo_check(ctx, lib, rs, list(tr.steps), docs, tr.doc, doc_p, tag, sub)
        ctx.evaluations += 1
    ctx.evaluations -= 1
    for s_ in statuses:
        ctx.label("op:" + s_)
    kinds = [type(s_).__name__ for s_ in tr.steps]
    mid_reject = any(statuses[i] == "rejected" and "ok" in statuses[:i] and "ok" in statuses[i + 1 :] for i in range(len(statuses)))
    if len(kinds) >= 2 and ("ReplaceAroundStep" in kinds or mid_reject):
        ctx.label("history:nontrivial")
        ctx.nontrivial([sk, doc_p, case["ops"]])
    ctx.label(f"history:steps={min(len(kinds), 10)}")
