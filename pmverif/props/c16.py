"""C16 — a merged step is equivalent to the two steps it replaces."""
from __future__ import annotations

import copy

from ..core import Ctx, call, require
from ..draw import Draw
from ..gen import ops as go
from ..gen import schemas
from ..gen import steps as gs
from ..gen.docs import docgen
from ..ref import plain as P
from ..ref import splice as S
from ..ref import validate as V

ID = "C16"
RULE = (
    "group-V schemas; valid base document; an ordered pair of steps (s1 applies to the document, s2 to the result) biased towards mergeable "
    "pairs: consecutive typing / backspacing, s2 starting where s1's insertion ends or ending where s1 starts with open and closed slices, "
    "touching / overlapping add-mark and remove-mark ranges with equal and unequal marks, and the step pairs recorded by two consecutive "
    "Transform operations; the pair is retried on further valid documents (the base document with content appended, independent documents). "
    "Non-trivial = merge returned a step (labelled by branch: append / prepend / mark-range union, and by open sides); distinct by (doc, s1, s2)."
)
ASSUMPTIONS = ["documents on which the pair is retried are schema-valid (the quantifier says valid documents)"]
LEVEL_TEXT = (
    "Generated-input search over step pairs built to hit every merge branch; whenever merge returns a step, the merged step and the "
    "two-step sequence are both applied to each candidate document and compared (success, resulting tree, size change). Sampling."
)
LEVEL_NOTE = "Trusted: plain-tree equality as 'equal documents'. The oracle is differential: merged step vs. the sequence it replaces."
TECHNIQUE = "property-based differential testing (Hypothesis): merged step vs sequential application"
BUDGET = {
    "quick": {"shards": 8, "examples": 1600},
    "thorough": {"shards": 16, "examples": 25000},
}
FLOORS = {"merged": (800, 20000)}

ZOO_NAMES = schemas.GROUP_V + schemas.MARK_VARIANTS + ["inline_box"]


def _apply_desc(lib, doc_node, desc):  # noqa: ANN001, ANN202
    """steering only"""
    try:
        r = gs.build_step(lib, desc).apply(doc_node)
        return None if r.failed else r.doc
    except Exception:  # noqa: BLE001
        return None


def RR_all(doc: dict, rs):  # noqa: ANN001, ANN201, N802
    from ..ref import resolve as RR

    return RR.all_nodes(RR.N(doc, rs))


def generate(R: Draw, tier: str) -> dict:
    sref = R.choice(ZOO_NAMES)
    lib, rs = schemas.get(sref)
    g = docgen(rs)
    doc = g.doc(R, R.weighted([("small", 5), ("medium", 2)]))
    node = P.build(lib, doc)
    n = node.content.size
    T = P.tokens_of(doc["c"], rs.leaf_types)
    dd = S.depth_table(T)
    kind = R.weighted([("typing", 2), ("backspace", 2), ("adjacent", 6), ("marks", 4), ("ops", 3), ("open-pair", 4)])
    s1 = s2 = None
    inline_pos = [p for p in range(n + 1) if p < len(T) and T[p][0] == "char" or (p > 0 and T[p - 1][0] == "char")]
    if kind == "typing" and inline_pos:
        p = R.choice(inline_pos)
        t1, t2 = g.text(R), g.text(R)
        marks = []
        s1 = {"k": "replace", "from": p, "to": p, "slice": {"c": [P.mk("text", {}, None, marks, t1)], "os": 0, "oe": 0}, "structure": False}
        from ..ref import u16

        q = p + u16.u16len(t1) if R.bool(0.8) else p
        s2 = {"k": "replace", "from": q, "to": q, "slice": {"c": [P.mk("text", {}, None, g.mark_set(R, "paragraph" if "paragraph" in rs.nodes else rs.top, 0.3), t2)], "os": 0, "oe": 0}, "structure": False}
    elif kind == "backspace" and inline_pos:
        p = R.choice(inline_pos)
        a = max(0, p - R.int(1, 2))
        s1 = {"k": "replace", "from": a, "to": p, "slice": dict(gs.EMPTY_SLICE), "structure": False}
        b = max(0, a - R.int(1, 2))
        if R.bool(0.3):
            # delete forward instead: s2 starts where s1 started
            s2 = {"k": "replace", "from": a, "to": min(n - (p - a), a + R.int(1, 2)), "slice": dict(gs.EMPTY_SLICE), "structure": False}
        else:
            s2 = {"k": "replace", "from": b, "to": a, "slice": dict(gs.EMPTY_SLICE), "structure": False}
    elif kind == "marks" and rs.mark_names:
        a = R.int(0, n)
        b = R.int(a, min(n, a + R.int(0, 8)))
        m1 = g.mark(R, R.choice(rs.mark_names))
        present = [(s_, k_.size, k_.p["m"]) for k_, s_, _par, _i, _d in RR_all(doc, rs) if k_.p["m"]]
        if present and R.bool(0.6):
            # marks that are really in the document, and a range on top of them
            s_, z, ms = R.choice(present)
            m1 = copy.deepcopy(R.choice(ms))
            a = max(0, s_ - R.int(0, 2))
            b = min(n, s_ + z + R.int(0, 2))
        r = R.int(0, 9)
        if r < 5:
            m2 = m1
        elif r < 8:
            # same type, other attributes (only types with attributes can differ): two different marks of one type
            m2 = g.mark(R, m1[0])
            others = [copy.deepcopy(m) for _s, _z, ms in present for m in ms if m[0] == m1[0] and m != m1]
            if others and R.bool(0.7):
                m2 = R.choice(others)
        else:
            m2 = g.mark(R, R.choice(rs.mark_names))
        c = R.int(max(0, a - 4), min(n, b + 4))
        d = R.int(c, min(n, c + R.int(0, 8)))
        if R.bool(0.3):
            c = b  # touching
            d = R.int(c, min(n, c + R.int(0, 6)))
        elif R.bool(0.5):
            # both ranges inside one stretch of inline content, overlapping in every relative position (second
            # before / inside / around / after the first) so that every character matters
            tbs = [(s_ + 1, s_ + k_.size - 1) for k_, s_, _par, _i, _d in RR_all(doc, rs) if rs.textblock.get(k_.t) and k_.size > 3]
            if tbs:
                lo, hi = R.choice(tbs)
                a = R.int(lo, hi)
                b = R.int(a, hi)
                c = R.int(lo, b)
                d = R.int(max(c, a), hi)
        if R.bool(0.15):
            # each range ends at the depth it starts at, the two depths differ, the ranges overlap: their union starts
            # and ends at different depths (a range from inside a paragraph to a position between blocks)
            for _ in range(6):
                a0 = R.int(0, n)
                bs = [p for p in range(a0 + 1, min(n, a0 + 14) + 1) if dd[p] == dd[a0]]
                if not bs:
                    continue
                b0 = R.choice(bs)
                cs = [p for p in range(a0 + 1, b0 + 1) if dd[p] != dd[a0]]
                if not cs:
                    continue
                c0 = R.choice(cs)
                ds = [p for p in range(b0, min(n, b0 + 14) + 1) if dd[p] == dd[c0]]
                if ds:
                    a, b, c, d = a0, b0, c0, R.choice(ds)
                    m2 = m1
                    break
        k1 = R.choice(["addMark", "removeMark"])
        k2 = k1 if R.bool(0.8) else R.choice(["addMark", "removeMark"])
        if m2 != m1 and m2[0] == m1[0] and R.bool(0.7):
            # make the difference between the two marks visible: a textblock holding "ab"[m1] "cd"[m2] "ef" and two
            # overlapping ranges over it
            doc2 = copy.deepcopy(doc)
            blocks = [(k_, s_) for k_, s_, _par, _i, _d in RR_all(doc2, rs) if rs.textblock.get(k_.t) and rs.allows_mark(k_.t, m1[0])]
            if blocks:
                k_, s_ = R.choice(blocks)
                k_.p["c"] = [P.mk("text", {}, None, [copy.deepcopy(m1)], "ab"), P.mk("text", {}, None, [copy.deepcopy(m2)], "cd"), P.mk("text", {}, None, [], "ef")]
                doc = doc2
                p0 = s_ + 1
                a = p0 + R.int(0, 1)
                b = p0 + R.int(2, 4)
                c = R.int(a, b)
                d = p0 + R.int(max(c - p0, 3), 6)
        if m2 == m1 and R.bool(0.25):
            # three runs that differ only in the mark being added / removed ("ab"[m] "cd" "ef"[m]) and two overlapping
            # ranges whose union covers all three: after the merged step they are one text node
            doc2 = copy.deepcopy(doc)
            blocks = [(k_, s_) for k_, s_, _par, _i, _d in RR_all(doc2, rs) if rs.textblock.get(k_.t) and rs.allows_mark(k_.t, m1[0])]
            if blocks:
                from ..ref import marks as rm

                k_, s_ = R.choice(blocks)
                base = [x for x in g.mark_set(R, k_.t, 0.3) if x[0] != m1[0] and not rs.excludes(x[0], m1[0]) and not rs.excludes(m1[0], x[0])]
                with_m = rm.ref_add(rs, copy.deepcopy(m1), base)
                if any(x[0] == m1[0] for x in with_m):
                    k1 = k2 = R.choice(["addMark", "removeMark"])
                    outer, inner = (with_m, base) if k1 == "addMark" else (base, with_m)
                    k_.p["c"] = [P.mk("text", {}, None, copy.deepcopy(outer), "ab"), P.mk("text", {}, None, copy.deepcopy(inner), "cd"), P.mk("text", {}, None, copy.deepcopy(outer), "ef")]
                    doc = doc2
                    p0 = s_ + 1
                    a, b = p0 + R.int(0, 1), p0 + R.int(3, 4)
                    c, d = p0 + R.int(2, 3), p0 + R.int(5, 6)
                    if R.bool():
                        a, b, c, d = c, d, a, b
        s1 = {"k": k1, "from": a, "to": b, "mark": m1}
        s2 = {"k": k2, "from": c, "to": d, "mark": m2}
    elif kind == "ops":
        ops = [go.gen_op(R, g, lib, node, go.REPLACE_FAMILY + ["add_mark", "remove_mark"])]
        tr, _ = go.run_history(lib, node, ops)
        op2 = go.gen_op(R, g, lib, tr.doc, go.REPLACE_FAMILY + ["add_mark", "remove_mark"])
        tr2, _ = go.run_history(lib, node, ops + [op2])
        if len(tr2.steps) >= 2:
            i = R.int(0, len(tr2.steps) - 2)
            s1, s2 = gs.describe_step(tr2.steps[i]), gs.describe_step(tr2.steps[i + 1])
            doc = P.plain(tr2.docs[i])
    if kind == "open-pair":
        # two insertions at a text position whose slices are open on BOTH sides by the same depth k (split-like),
        # the second either ending where the first started or starting where the first's insertion ends
        from ..ref import resolve as RR

        rdoc = RR.N(doc, rs)
        spots = [p for p in range(n + 1) if rs.textblock.get(RR.RefPos(rs, rdoc, p).parent.t)]
        if spots:
            p = R.choice(spots)
            rp = RR.RefPos(rs, rdoc, p)
            k = 2 if rp.depth >= 2 and R.bool(0.35) else 1

            def open_slice() -> dict:
                def shell(txt: str) -> dict:
                    nd = P.mk(rp.parent.t, copy.deepcopy(rp.parent.p["a"]), [P.mk("text", {}, None, [], txt)])
                    if k == 2:
                        outer = rp.node(rp.depth - 1)
                        nd = P.mk(outer.t, copy.deepcopy(outer.p["a"]), [nd])
                    return nd

                return {"c": [shell(g.text(R, 0.1)), shell(g.text(R, 0.1))], "os": k, "oe": k}

            sl1, sl2 = open_slice(), open_slice()
            size1 = S.slice_size(sl1, rs.leaf_types)
            s1 = {"k": "replace", "from": p, "to": p, "slice": sl1, "structure": False}
            q = p if R.bool(0.6) else p + size1
            if R.bool(0.25) and q == p and p > 0 and T[p - 1][0] == "char":
                s2 = {"k": "replace", "from": p - 1, "to": p, "slice": sl2, "structure": False}
            else:
                s2 = {"k": "replace", "from": q, "to": q, "slice": sl2, "structure": False}
    if s1 is None:
        # adjacent replace steps with open / closed slices
        for _ in range(4):
            a = R.int(0, n)
            b = R.int(a, min(n, a + R.int(0, 6)))
            sl1 = gs.rand_slice(R, g, "tiny") if R.bool(0.8) else gs.closed_slice(R, g)
            # make s1 plausible: range end at a depth matching the slice
            want = dd[a] - sl1["os"] + sl1["oe"]
            cands = [p for p in range(a, min(n, a + 10) + 1) if dd[p] == want]
            if cands and R.bool(0.8):
                b = R.choice(cands)
            s1 = {"k": "replace", "from": a, "to": b, "slice": sl1, "structure": False}
            d1 = _apply_desc(lib, node, s1)
            if d1 is not None:
                break
        size1 = S.slice_size(s1["slice"], rs.leaf_types)
        n1 = n + size1 - (s1["to"] - s1["from"])
        sl2 = gs.rand_slice(R, g, "tiny") if R.bool(0.7) else (gs.closed_slice(R, g) if R.bool(0.5) else dict(gs.EMPTY_SLICE))
        if R.bool(0.55):
            f2 = s1["from"] + size1
            t2 = min(n1, f2 + R.int(0, 5))
        else:
            t2 = s1["from"]
            f2 = max(0, t2 - R.int(0, 5))
        if R.bool(0.1):
            f2 = min(n1, f2 + 1)
            t2 = max(t2, f2)
        elif R.bool(0.2):
            # off by an open depth: the second step placed as if the first slice's content size (not its slice size)
            # counted, or the other way round
            k = R.choice([x for x in (s1["slice"]["os"], s1["slice"]["oe"], sl2["os"], sl2["oe"]) if x] or [1])
            sh = R.choice([-k, k])
            f2 = max(0, min(n1, f2 + sh))
            t2 = max(f2, min(n1, t2 + sh))
        if s1["slice"]["os"] and not s1["slice"]["oe"] and R.bool(0.5):
            # first slice open at the start only: a second, start-closed step placed where the first slice's CONTENT
            # (not its size) would end - must not be taken for adjacent
            sl2 = gs.closed_slice(R, g) if R.bool(0.5) else {"c": [P.mk("text", {}, None, [], g.text(R))], "os": 0, "oe": 0}
            f2 = min(n1, s1["from"] + size1 + s1["slice"]["os"])
            t2 = min(n1, f2 + R.int(0, 2))
        elif not s1["slice"]["os"] and s1["slice"]["oe"] and R.bool(0.3):
            sl2 = gs.closed_slice(R, g) if R.bool(0.5) else {"c": [P.mk("text", {}, None, [], g.text(R))], "os": 0, "oe": 0}
            t2 = max(0, s1["from"] - s1["slice"]["oe"])
            f2 = max(0, t2 - R.int(0, 2))
        s2 = {"k": "replace", "from": f2, "to": t2, "slice": sl2, "structure": R.bool(0.05)}
    others = []
    # the base document with a block appended (positions of the pair stay valid)
    extra = [t for t in rs.node_names if rs.generatable[t] and rs.accepts(doc["t"], [c["t"] for c in doc["c"]] + [t])]
    if extra:
        d2 = copy.deepcopy(doc)
        d2["c"].append(g.node(R, R.choice(extra), 1, 6))
        others.append(d2)
    others.append(g.doc(R, "small"))
    return {"schema": sref, "doc": doc, "s1": s1, "s2": s2, "others": others}


def _run(step, d):  # noqa: ANN001, ANN202
    r = call("apply", step.apply, d, reject=(Exception,))
    if not r.ok or r.value.failed:
        return None
    return r.value.doc


def check(case: dict, ctx: Ctx) -> None:
    lib, rs = schemas.get(case["schema"])
    s1 = gs.build_step(lib, case["s1"])
    s2 = gs.build_step(lib, case["s2"])
    m = call("merge", s1.merge, s2)
    require(m.ok, "merge:raised", f"merge raised {m.exc!r}")
    if m.value is None:
        ctx.label("not-mergeable")
        return
    merged = m.value
    ctx.label("merged")
    k = case["s1"]["k"]
    if k == "replace":
        branch = "append" if case["s1"]["from"] + S.slice_size(case["s1"]["slice"], rs.leaf_types) == case["s2"]["from"] and not case["s1"]["slice"]["oe"] and not case["s2"]["slice"]["os"] else "prepend"
        ctx.label("branch:" + branch)
        opens = (case["s1"]["slice"]["os"], case["s1"]["slice"]["oe"], case["s2"]["slice"]["os"], case["s2"]["slice"]["oe"])
        if any(opens):
            ctx.label("merged:open-slice")
    else:
        ctx.label("branch:marks")
    applied = 0
    for i, dp in enumerate([case["doc"]] + case["others"]):
        if V.node_problems(rs, dp):
            continue
        d = P.build(lib, dp)
        d1 = _run(s1, d)
        if d1 is None:
            continue
        d2 = _run(s2, d1)
        if d2 is None:
            continue
        applied += 1
        r = call("apply-merged", merged.apply, d)
        require(r.ok, "merged:raised", f"merged step raised {r.exc!r} where the sequence applies (doc {i})")
        require(not r.value.failed, "merged:failed", f"merged step failed ({r.value.failed}) where the sequence applies (doc {i}); s1={gs.describe_step(s1)} s2={gs.describe_step(s2)}")
        got = P.plain(r.value.doc)
        exp = P.plain(d2)
        require(got == exp, "merged:different-document", f"merged step gives {got['c']}, sequence gives {exp['c']} (doc {i})")
        require(r.value.doc.content.size - d.content.size == d2.content.size - d.content.size, "merged:size-delta", "size delta differs")
        # the merged step's map must account for the same size change
        mp = call("get_map", merged.get_map)
        if mp.ok:
            from ..ref.stepmap import RefMap

            delta = RefMap.from_stored(list(mp.value.ranges), mp.value.inverted).size_delta()
            require(delta == d2.content.size - d.content.size, "merged:map-size-delta", f"merged map delta {delta} vs {d2.content.size - d.content.size}")
    if applied:
        ctx.label("merged:sequence-applies")
        ctx.nontrivial([case["doc"], case["s1"], case["s2"]])
