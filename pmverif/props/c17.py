"""C17 — concurrent edits to separate parts of a document commute after rebasing."""
from __future__ import annotations

from ..core import Ctx, call, fail_unless_known, require
from ..draw import Draw
from ..gen import ops as go
from ..gen import schemas
from ..gen import steps as gs
from ..gen.docs import docgen
from ..ref import plain as P
from ..ref import resolve as RR
from ..ref import validate as V

ID = "C17"
RULE = (
    "group-V schemas; valid document with several top-level blocks; two Transform operations (replace/fit, insert, delete, range variants, "
    "mark changes, split, join, lift, wrap, block type, markup, attributes, node marks) each of which records exactly one step on the SAME "
    "document; the pair is kept when the hulls they touch ([from,to] including the gap; the whole node for attribute / node-mark steps) are "
    "separated by at least one token. Non-trivial = both steps change the size, or one is a ReplaceAround step; distinct by (doc, stepA, stepB)."
)
ASSUMPTIONS = ["only single-step operations are paired (the statement is about pairs of steps)"]
LEVEL_TEXT = (
    "Generated-input search over pairs of genuinely recorded steps with disjoint hulls: each is rebased over the other's map, both orders "
    "are applied and the resulting trees compared. Sampling."
)
LEVEL_NOTE = "Trusted: plain-tree equality; hull computation from the step's own fields and reference node sizes."
TECHNIQUE = "property-based metamorphic testing (Hypothesis): both application orders after rebasing must agree"
BUDGET = {
    "quick": {"shards": 8, "examples": 900},
    "thorough": {"shards": 16, "examples": 20000},
}
FLOORS = {"separated": (1500, 40000)}

ZOO_NAMES = schemas.GROUP_V
OPS = [k for k in go.ALL_OPS if k not in ("step", "set_doc_attribute")]


def hull(rs, doc_p: dict, d: dict) -> tuple[int, int]:  # noqa: ANN001
    h = gs.touched_hull(d)
    if d["k"] in ("addNodeMark", "removeNodeMark", "attr"):
        n = RR.node_at(RR.N(doc_p, rs), d["pos"])
        size = P.size_of([n], rs.leaf_types) if n is not None and n["t"] != "text" else 1
        return (d["pos"], d["pos"] + size)
    assert h is not None
    return h


def separated(a: tuple[int, int], b: tuple[int, int]) -> bool:
    return a[1] + 1 <= b[0] or b[1] + 1 <= a[0]


def _single_step(lib, node, op):  # noqa: ANN001, ANN202
    tr, st = go.run_history(lib, node, [op])
    if st == ["ok"] and len(tr.steps) == 1:
        return gs.describe_step(tr.steps[0])
    return None


def generate(R: Draw, tier: str) -> dict:
    sref = R.choice(ZOO_NAMES)
    lib, rs = schemas.get(sref)
    g = docgen(rs)
    doc = g.doc(R, R.weighted([("medium", 5), ("large", 2)]))
    node = P.build(lib, doc)
    op_a = op_b = None
    ha = None
    for _ in range(5):
        op = go.gen_op(R, g, lib, node, OPS, steer=0.9)
        d = _single_step(lib, node, op)
        if d is not None:
            op_a, ha = op, hull(rs, doc, d)
            break
    if op_a is None:
        return {"schema": sref, "doc": doc, "a": go.gen_op(R, g, lib, node, OPS), "b": go.gen_op(R, g, lib, node, OPS)}
    for _ in range(8):
        op = go.gen_op(R, g, lib, node, OPS, steer=0.9)
        d = _single_step(lib, node, op)
        if d is not None:
            op_b = op
            if separated(ha, hull(rs, doc, d)):
                break
    if op_b is None:
        op_b = go.gen_op(R, g, lib, node, OPS)
    return {"schema": sref, "doc": doc, "a": op_a, "b": op_b}


def check(case: dict, ctx: Ctx) -> None:
    from prosemirror.transform import Transform

    lib, rs = schemas.get(case["schema"])
    doc_p = case["doc"]
    assert not V.node_problems(rs, doc_p)
    doc = P.build(lib, doc_p)
    steps = []
    for key in ("a", "b"):
        tr = Transform(doc)
        o = call("op", go.apply_op, tr, lib, case[key], reject=(Exception,))
        if not o.ok or len(tr.steps) != 1:
            ctx.label("skipped:not-single-step")
            return
        steps.append((tr.steps[0], tr.doc))
    (sa, da), (sb, db) = steps
    desc_a, desc_b = gs.describe_step(sa), gs.describe_step(sb)
    if desc_a["k"] == "docAttr" or desc_b["k"] == "docAttr":
        ctx.label("skipped:doc-attr")
        return
    if not separated(hull(rs, doc_p, desc_a), hull(rs, doc_p, desc_b)):
        ctx.label("skipped:not-separated")
        return
    ctx.label("separated")
    ctx.label("pair:" + "+".join(sorted([case["a"]["op"], case["b"]["op"]])))
    ma = call("get_map", sa.get_map)
    mb = call("get_map", sb.get_map)
    require(ma.ok and mb.ok, "get_map:raised", "get_map raised")
    a2 = call("map", sa.map, mb.value)
    b2 = call("map", sb.map, ma.value)
    require(a2.ok and b2.ok, "rebase:raised", f"Step.map raised {a2.exc!r} / {b2.exc!r}")
    info = f"A={desc_short(desc_a)} B={desc_short(desc_b)}"
    require(a2.value is not None, "rebase:dropped", f"A dropped when rebased over B's map; {info}")
    require(b2.value is not None, "rebase:dropped", f"B dropped when rebased over A's map; {info}")
    r1 = call("apply", b2.value.apply, da)
    r2 = call("apply", a2.value.apply, db)
    sub = {"mode": "c17", "schema": case["schema"], "doc": doc_p, "a": desc_a, "b": desc_b, "hull_a": list(hull(rs, doc_p, desc_a)), "hull_b": list(hull(rs, doc_p, desc_b))}
    if not (r1.ok and not r1.value.failed):
        fail_unless_known(ctx, ID, "rebase:apply-failed", sub, f"B' fails after A: {r1.value.failed if r1.ok else r1.exc!r}; {info}")
        return
    if not (r2.ok and not r2.value.failed):
        fail_unless_known(ctx, ID, "rebase:apply-failed", sub, f"A' fails after B: {r2.value.failed if r2.ok else r2.exc!r}; {info}")
        return
    p1, p2 = P.plain(r1.value.doc), P.plain(r2.value.doc)
    require(p1 == p2, "rebase:diverged", f"A then B' = {p1['c']}  but  B then A' = {p2['c']}; {info}")
    sizes = (da.content.size != doc.content.size, db.content.size != doc.content.size)
    if all(sizes) or "around" in (desc_a["k"], desc_b["k"]):
        if "around" in (desc_a["k"], desc_b["k"]):
            ctx.label("pair:has-replace-around")
        ctx.nontrivial([doc_p, desc_a, desc_b])


def desc_short(d: dict) -> dict:
    return {k: v for k, v in d.items() if k != "slice"}
