"""C09 — positions resolve, index and traverse consistently, counting UTF-16 units."""
from __future__ import annotations

import os

from ..core import Ctx, call, require
from ..draw import Draw
from ..gen import schemas
from ..gen.docs import docgen
from ..ref import marks as rm
from ..ref import plain as P
from ..ref import resolve as RR
from ..ref import splice as S

ID = "C09"
RULE = (
    "schema from the zoo (incl. non-inclusive and non-exclusive mark variants) or random; valid document with astral text; EVERY "
    "position of the document is resolved and all accessors compared with the reference resolver and the token picture; position "
    "pairs (all pairs on small documents, a drawn subset otherwise) for shared_depth/same_parent/block_range/marks_across/"
    "nodes_between/range_has_mark/text_between. Non-trivial = a position at the first or last child of its parent, at a depth change, "
    "inside or next to astral text, or in a parent with >=2 differently marked children; distinct by (document, position)."
)
ASSUMPTIONS = [
    "mid-surrogate policy (DESIGN.md §3.1): every integer accessor must be right at such positions; node_before/node_after/"
    "text_between may raise a ValueError-family exception there but must not return wrong text",
    "Fragment.child(i) for negative i is not asserted (Python list semantics); maybe_child is",
    "text_between follows prosemirror-model 1.18 (separator emitted before a block that follows emitted text)",
]
LEVEL_TEXT = (
    "Generated documents, then exhaustive over every position of each document (and all or many position pairs): every documented "
    "accessor of ResolvedPos, Node.node_at/child_after/child_before/nodes_between/descendants/range_has_mark/text_between/"
    "text_content and Fragment.find_index/maybe_child is compared with an independent resolver over plain trees and with the flat "
    "token picture (UTF-16 units). Sampling over documents, complete over positions."
)
LEVEL_NOTE = "Trusted: pmverif/ref/resolve.py (definitions of the accessors from the upstream documentation) and ref/plain.py tokens."
TECHNIQUE = "property-based testing (Hypothesis documents) x exhaustive positions against a reference resolver and flat tokens"
BUDGET = {
    "quick": {"shards": 8, "examples": 600},
    "thorough": {"shards": 16, "examples": 5000},
}

ZOO_NAMES = schemas.GROUP_V + schemas.GROUP_X + schemas.MARK_VARIANTS


def generate(R: Draw, tier: str) -> dict:
    sref = schemas.pick_schema(R, ZOO_NAMES, p_random=0.3)
    lib, rs = schemas.get(sref)
    g = docgen(rs)
    doc = g.doc(R, R.weighted([("tiny", 1), ("small", 5), ("medium", 3)]))
    n = P.size_of(doc["c"], rs.leaf_types)
    pairs = []
    if n > 14:
        for _ in range(30):
            a = R.int(0, n)
            pairs.append([a, R.int(a, min(n, a + R.int(0, 14)))])
    mark = None
    if rs.mark_names:
        mark = g.mark(R, R.choice(rs.mark_names))
    return {"schema": sref, "doc": doc, "pairs": pairs or None, "mark": mark}


def _plain_or_none(n):  # noqa: ANN001, ANN202
    return None if n is None else P.plain(n)


def check(case: dict, ctx: Ctx) -> None:
    lib, rs = schemas.get(case["schema"])
    doc_p = case["doc"]
    doc = P.build(lib, doc_p)
    rdoc = RR.N(doc_p, rs)
    T = P.tokens_of(doc_p["c"], rs.leaf_types)
    n = len(T)
    require(doc.content.size == n and doc.node_size == n + 2, "size:wrong", f"content.size {doc.content.size}, tokens {n}")
    dd = S.depth_table(T)
    nev = 0
    # out of range
    for bad in (-1, n + 1):
        o = call("resolve", doc.resolve, bad)
        require(not o.ok, "resolve:out-of-range-accepted", f"resolve({bad}) returned")
    rposes = {}
    lposes = {}
    for pos in range(n + 1):
        nev += 1
        o = call("resolve", doc.resolve, pos)
        require(o.ok, "resolve:raised", f"resolve({pos}) raised {o.exc!r}")
        lp = o.value
        rp = RR.RefPos(rs, rdoc, pos)
        rposes[pos] = rp
        lposes[pos] = lp
        mid = S.splits_pair_at(T, pos)
        tag = f"pos {pos}"
        require(lp.pos == pos, "pos:wrong", tag)
        require(lp.depth == rp.depth == dd[pos], "depth:wrong", f"{tag}: depth {lp.depth}, reference {rp.depth}, tokens {dd[pos]}")
        stack = S.open_stack(T, pos)
        for d in range(rp.depth + 1):
            nd = call("node", lp.node, d)
            require(nd.ok and P.plain(nd.value) == rp.node(d).p, "node:wrong", f"{tag} node({d})")
            for name, fn, exp in (
                ("index", lp.index, rp.index(d)),
                ("index_after", lp.index_after, rp.index_after(d)),
                ("start", lp.start, rp.start(d)),
                ("end", lp.end, rp.end(d)),
            ):
                r = call(name, fn, d)
                require(r.ok and r.value == exp, f"{name}:wrong", f"{tag} {name}({d}) = {r.value if r.ok else r.exc!r}, reference {exp}")
            if d >= 1:
                # token picture: ancestor d opens at stack[d-1]
                assert rp.start(d) == stack[d - 1] + 1, f"{tag} start({d})"
                for name, fn, exp in (("before", lp.before, rp.before(d)), ("after", lp.after, rp.after(d))):
                    r = call(name, fn, d)
                    require(r.ok and r.value == exp, f"{name}:wrong", f"{tag} {name}({d}) = {r.value if r.ok else r.exc!r}, reference {exp}")
                assert T[rp.after(d) - 1][0] == "close" and T[rp.before(d)][0] == "open", f"{tag} before/after({d})"
            for idx in range(len(rp.node(d).kids) + 1):
                r = call("pos_at_index", lp.pos_at_index, idx, d)
                require(r.ok and r.value == rp.pos_at_index(idx, d), "pos_at_index:wrong", f"{tag} pos_at_index({idx},{d})")
        # before/after at depth+1 return the position itself; depth 0 raises
        for name, fn in (("before", lp.before), ("after", lp.after)):
            r = call(name, fn, rp.depth + 1)
            require(r.ok and r.value == pos, f"{name}:wrong", f"{tag} {name}(depth+1)")
            r = call(name, fn, 0)
            require(not r.ok, f"{name}:depth0-accepted", f"{tag} {name}(0) returned")
        require(lp.parent_offset == rp.parent_offset, "parent_offset:wrong", f"{tag}: {lp.parent_offset} vs {rp.parent_offset}")
        r = call("text_offset", lambda: lp.text_offset)
        require(r.ok and r.value == rp.text_offset, "text_offset:wrong", f"{tag}: {r.value if r.ok else r.exc!r} vs {rp.text_offset}")
        r = call("parent", lambda: lp.parent)
        require(r.ok and P.plain(r.value) == rp.parent.p, "parent:wrong", tag)
        for name, exp in (("node_after", rp.node_after()), ("node_before", rp.node_before())):
            r = call(name, lambda nm=name: getattr(lp, nm))
            if exp == "MID":
                ctx.label("mid-surrogate:node-cut")
                require((not r.ok) or False, "mid-surrogate:returned", f"{tag} {name} returned {_plain_or_none(r.value) if r.ok else None} at a half pair")
            else:
                require(r.ok, f"{name}:raised", f"{tag} {name} raised {r.exc!r}")
                require(_plain_or_none(r.value) == exp, f"{name}:wrong", f"{tag} {name} = {_plain_or_none(r.value)}, reference {exp}")
        r = call("marks", lp.marks)
        require(r.ok, "marks:raised", f"{tag} marks() raised {r.exc!r}")
        got = [P.plain_mark(m) for m in r.value]
        require(got == rp.marks(), "marks:wrong", f"{tag} marks() = {got}, reference {rp.marks()}")
        # node-level lookups on the document
        r = call("node_at", doc.node_at, pos)
        exp = RR.node_at(rdoc, pos)
        tok = T[pos] if pos < n else None
        require(r.ok and _plain_or_none(r.value) == exp, "node_at:wrong", f"node_at({pos}) = {_plain_or_none(r.value) if r.ok else r.exc!r}, reference {exp}")
        assert (exp is None) == (tok is None or tok[0] == "close"), f"node_at({pos}) vs token {tok}"
        # child_after / child_before / find_index on the parent at this position
        par_l, par_r, off = lp.parent, rp.parent, rp.parent_offset
        r = call("child_after", par_l.child_after, off)
        e = RR.child_after(par_r, off)
        require(r.ok and (_plain_or_none(r.value["node"]), r.value["index"], r.value["offset"]) == e, "child_after:wrong", f"{tag} child_after({off})")
        r = call("child_before", par_l.child_before, off)
        e = RR.child_before(par_r, off)
        require(r.ok and (_plain_or_none(r.value["node"]), r.value["index"], r.value["offset"]) == e, "child_before:wrong", f"{tag} child_before({off}) = {r.value if r.ok else r.exc!r}, reference {e}")
        for rnd in (-1, 1):
            r = call("find_index", par_l.content.find_index, off, rnd)
            e = RR.find_index(par_r, off, rnd)
            require(r.ok and (r.value["index"], r.value["offset"]) == e, "find_index:wrong", f"{tag} find_index({off},{rnd})")
        # non-triviality
        par_kids = rp.parent.kids
        idx = rp.index(rp.depth)
        astral_near = any(
            0 <= j < n and T[j][0] == "char" and 0xD800 <= T[j][1] < 0xE000 for j in (pos - 2, pos - 1, pos, pos + 1)
        )
        if astral_near:
            ctx.label("pos:astral")
        if mid:
            ctx.label("pos:mid-surrogate")
        if idx == 0 or idx >= len(par_kids) - 1:
            ctx.label("pos:first-or-last-child")
        diff_marks = len({P.jkey(k.p["m"]) for k in par_kids}) >= 2
        if diff_marks:
            ctx.label("pos:mixed-marks-parent")
        if astral_near or idx == 0 or idx >= len(par_kids) - 1 or diff_marks or (pos > 0 and dd[pos] != dd[pos - 1]):
            ctx.nontrivial([doc_p, pos])
    # maybe_child / child_count on every node
    for k, s, par, i, depth in [(rdoc, 0, None, 0, 0)] + RR.all_nodes(rdoc):
        if k is rdoc:
            ln = doc
        else:
            ln = doc.node_at(s) if not k.is_text else None
            if ln is None or P.plain(ln) != k.p:
                continue
        cnt = len(k.kids)
        require(ln.child_count == cnt and ln.content.child_count == cnt, "child_count:wrong", f"node at {s}")
        for i2 in range(0 if os.environ.get("PMVERIF_C09_SKIP_NEG") else -2, cnt + 2):
            r = call("maybe_child", ln.maybe_child, i2)
            exp = k.kids[i2].p if 0 <= i2 < cnt else None
            require(r.ok and _plain_or_none(r.value) == exp, "maybe_child:wrong", f"node at {s} maybe_child({i2}) = {_plain_or_none(r.value) if r.ok else r.exc!r}, reference {exp}")
        r = call("text_content", lambda: ln.text_content)
        exp_tc = RR.text_between(rs, k, 0, k.content_size, "", "")
        require(r.ok and r.value == exp_tc, "text_content:wrong", f"node at {s}")
    # ---- pairs
    pairs = case["pairs"] or [[a, b] for a in range(n + 1) for b in range(a, n + 1)]
    mark_p = case["mark"]
    mark = P.build_mark(lib, mark_p) if mark_p else None
    for a, b in pairs:
        nev += 1
        la, lb, ra, rb = lposes[a], lposes[b], rposes[a], rposes[b]
        for x, y, lx, ly, rx_, ry in ((a, b, la, lb, ra, rb), (b, a, lb, la, rb, ra)):
            r = call("shared_depth", lx.shared_depth, y)
            require(r.ok and r.value == rx_.shared_depth(y), "shared_depth:wrong", f"resolve({x}).shared_depth({y}) = {r.value if r.ok else r.exc!r}, reference {rx_.shared_depth(y)}")
            r = call("same_parent", lx.same_parent, ly)
            require(r.ok and bool(r.value) == rx_.same_parent(ry), "same_parent:wrong", f"({x},{y})")
            r = call("block_range", lx.block_range, ly)
            require(r.ok, "block_range:raised", f"({x},{y}) {r.exc!r}")
            e = rx_.block_range(ry)
            if r.value is None or e is None:
                require(r.value is None and e is None, "block_range:none-mismatch", f"({x},{y}): {r.value} vs {e}")
            else:
                br = r.value
                got = (br.depth, br.start, br.end, br.start_index, br.end_index)
                require(got == e, "block_range:wrong", f"block_range({x},{y}) = {got}, reference {e}")
                require(P.plain(br.parent) == rx_.node(e[0]).p if x <= y else True, "block_range:parent", f"({x},{y})")
        r = call("marks_across", la.marks_across, lb)
        require(r.ok, "marks_across:raised", f"({a},{b}) {r.exc!r}")
        e = ra.marks_across(rb)
        got = None if r.value is None else [P.plain_mark(m) for m in r.value]
        require(got == e, "marks_across:wrong", f"resolve({a}).marks_across({b}) = {got}, reference {e}")
        # nodes_between with and without pruning of textblocks
        for prune in (False, True):
            seen: list = []

            def cb(node, p, parent, index, prune=prune, seen=seen):  # noqa: ANN001, ANN202
                seen.append((P.plain(node), p, None if parent is None else P.plain(parent), index))
                if prune and node.type.name != "text" and node.inline_content:
                    return False
                return None

            r = call("nodes_between", doc.nodes_between, a, b, cb)
            require(r.ok, "nodes_between:raised", f"({a},{b}) {r.exc!r}")
            e = RR.nodes_between(rdoc, a, b, (lambda p: rs.inline_content[p["t"]]) if prune else None)
            require(
                seen == [(p, s, par, i) for p, s, par, i in e],
                "nodes_between:wrong",
                f"nodes_between({a},{b},prune={prune}): {[(x[0]['t'], x[1], x[3]) for x in seen]} vs {[(x[0]['t'], x[1], x[3]) for x in e]}",
            )
        if mark is not None:
            overlapping = RR.nodes_between(rdoc, a, b)
            for arg, exp in (
                (mark, b > a and any(rm.in_set(mark_p, p["m"]) for p, *_ in overlapping)),
                (mark.type, b > a and any(any(m[0] == mark_p[0] for m in p["m"]) for p, *_ in overlapping)),
            ):
                r = call("range_has_mark", doc.range_has_mark, a, b, arg)
                require(r.ok and bool(r.value) == exp, "range_has_mark:wrong", f"range_has_mark({a},{b},{mark_p}) = {r.value if r.ok else r.exc!r}, reference {exp}")
        for sep, leaf in (("", ""), ("|", "~")):
            e = RR.text_between(rs, rdoc, a, b, sep, leaf)
            r = call("text_between", doc.text_between, a, b, sep, leaf)
            if e is None:
                ctx.label("mid-surrogate:text_between")
                # may raise a ValueError; if it returns, nothing can be asserted about half characters
                continue
            require(r.ok, "text_between:raised", f"text_between({a},{b}) raised {r.exc!r}")
            require(r.value == e, "text_between:wrong", f"text_between({a},{b},{sep!r},{leaf!r}) = {r.value!r}, reference {e!r}")
        # token picture of plain text: chars in [a,b)
        e0 = RR.text_between(rs, rdoc, a, b, "", "")
        if e0 is not None:
            from ..ref import u16 as U

            chars = U.from_units([t[1] for t in T[a:b] if t[0] == "char"])
            assert chars == e0, f"text_between({a},{b}) reference {e0!r} vs tokens {chars!r}"
    # descendants == nodes_between(0, size)
    seen2: list = []
    r = call("descendants", doc.descendants, lambda node, p, parent, index: seen2.append((P.plain(node), p, index)) and None)
    require(r.ok and seen2 == [(p, s, i) for p, s, _par, i in RR.nodes_between(rdoc, 0, n)], "descendants:wrong", "descendants")
    ctx.evaluations += nev - 1
    ctx.label("doc")
