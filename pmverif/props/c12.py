"""C12 — structure helpers approve only edits that then succeed and keep content intact."""
from __future__ import annotations

from ..core import Ctx, call, fail_unless_known, require
from ..draw import Draw
from ..gen import schemas
from ..gen import steps as gs
from ..gen.docs import docgen
from ..ref import plain as P
from ..ref import resolve as RR
from ..ref import validate as V

ID = "C12"
RULE = (
    "schema: group V (approval clauses) or group X / random (performed-edit clause only); valid document; EVERY position x depth 1..3 for "
    "can_split (with and without drawn types_after), every position for can_join, join_point (both directions), insert_point (drawn node "
    "types) and drop_point (drawn slices); drawn position pairs -> block ranges for lift_target and find_wrapping (every container type as "
    "wrapper). Each approved edit is performed. Non-trivial = a helper approved and the edit was performed; distinct by (document, helper, "
    "arguments)."
)
ASSUMPTIONS = [
    "nothing is asserted about refusals (the helpers are heuristics)",
    "types_after is only passed with exactly one entry per split level (can_split and split index shorter lists differently, also upstream)",
    "'applies' = the Transform method returns without any exception and the result passes the reference validator",
]
LEVEL_TEXT = (
    "Generated documents, then exhaustive over positions (and depths) for the position-based helpers and over drawn block ranges for the "
    "range-based ones; every approval is followed by performing the edit, whose result is validated by the reference validator and whose "
    "leaf/character sequence is compared with the original. Sampling over documents, complete over positions."
)
LEVEL_NOTE = "Trusted: reference validator and flat leaf sequence; helpers are only required to be sound (approval => success), not complete."
TECHNIQUE = "property-based testing (Hypothesis documents) x exhaustive positions: approval-implies-success with reference validation"
BUDGET = {
    "quick": {"shards": 8, "examples": 220},
    "thorough": {"shards": 16, "examples": 5000},
}


def generate(R: Draw, tier: str) -> dict:
    grp = R.weighted([("V", 7), ("X", 1), ("R", 2)])
    if grp == "V":
        # doc_marks (blocks may carry marks: wrappers and joins have to respect them) gets extra weight
        sref = R.choice(schemas.GROUP_V + ["doc_marks", "doc_marks"])
    elif grp == "X":
        sref = R.choice(schemas.GROUP_X)
    else:
        sref = schemas.random_schema(R) or R.choice(schemas.GROUP_V)
        if isinstance(sref, str):
            grp = "V"
    lib, rs = schemas.get(sref)
    g = docgen(rs)
    doc = g.doc(R, R.weighted([("small", 5), ("medium", 2)]))
    n = P.size_of(doc["c"], rs.leaf_types)
    pairs = []
    for _ in range(10):
        a = R.int(0, n)
        pairs.append([a, R.int(a, min(n, a + R.int(0, 12)))])
    types = R.sample([t for t in rs.node_names if t not in (rs.top, "text")], 3)
    nodes = {t: (g.min_node(t) if rs.generatable[t] else g.node(R, t, 0, 0)) for t in types}
    slices = [gs.rand_slice(R, g, "tiny"), gs.closed_slice(R, g)]
    conts = [t for t in rs.node_names if not rs.leaf[t] and t != rs.top and t != "text"]
    types_after = None
    if conts and R.bool(0.5):
        types_after = [[R.choice(conts), None] for _ in range(R.int(1, 2))]
    return {"schema": sref, "group": grp, "doc": doc, "pairs": pairs, "nodes": nodes, "slices": slices, "types_after": types_after}


def check(case: dict, ctx: Ctx) -> None:
    from prosemirror.transform import (
        ReplaceStep,
        Transform,
        can_join,
        can_split,
        drop_point,
        find_wrapping,
        insert_point,
        join_point,
        lift_target,
    )
    from prosemirror.transform.structure import NodeTypeWithAttrs

    if not schemas.in_domain(case["schema"]):
        ctx.label("skipped:schema-not-well-founded")
        return
    lib, rs = schemas.get(case["schema"])
    doc_p = case["doc"]
    assert not V.node_problems(rs, doc_p)
    doc = P.build(lib, doc_p)
    lt = rs.leaf_types
    T0 = P.tokens_of(doc_p["c"], lt)
    L0 = P.leafseq(T0)
    n = len(T0)
    approval = case["group"] == "V"
    nev = 0
    base_sub = {"mode": "c12", "schema": case["schema"], "doc": doc_p}

    def perform(name: str, fn, args_desc, keep_leaves: bool = True, must_change: bool = False, approved: bool = True):  # noqa: ANN001, ANN202
        """Run the edit on a fresh Transform; judge by the clause that applies."""
        tr = Transform(doc)
        o = call(name, fn, tr, reject=(Exception,))
        sub = {**base_sub, "helper": name, "args": args_desc}
        if not o.ok:
            if approved and approval:
                fail_unless_known(ctx, ID, f"{name}:approved-but-failed", sub, f"{name}{args_desc} was approved but the edit raised {type(o.exc).__name__}: {o.exc}")
            elif not isinstance(o.exc, ValueError):
                # an unapproved edit may be refused, but not with an internal error
                fail_unless_known(ctx, ID, f"{name}:internal-error", sub, f"{name}{args_desc} raised {type(o.exc).__name__}: {o.exc}")
            return None
        got = P.plain(tr.doc)
        probs = V.node_problems(rs, got)
        if probs:
            fail_unless_known(ctx, ID, f"{name}:invalid-result", sub, f"{name}{args_desc} returned an invalid document: {probs[0]}")
            return None
        if keep_leaves:
            L1 = P.leafseq(P.tokens_of(got["c"], lt))
            require(L1 == L0, f"{name}:leaf-sequence-changed", f"{name}{args_desc} changed the text/leaf sequence")
        if must_change and approval:
            require(got != doc_p, f"{name}:no-change", f"{name}{args_desc} did not change the document")
        if approved:
            ctx.label(f"performed:{name}")
            ctx.nontrivial([doc_p, name, args_desc])
        return got

    ta = None
    if case["types_after"]:
        ta = [NodeTypeWithAttrs(lib.nodes[t], a) for t, a in case["types_after"]]
    from ..ref import splice as S

    for pos in range(n + 1):
        if S.splits_pair_at(T0, pos):
            ctx.label("pos:mid-surrogate-skipped")  # policy: edits cutting half a character may raise ValueError
            continue
        # ---- can_split
        for depth in (1, 2, 3):
            for types_after in ((None, ta) if ta else (None,)):
                nev += 1
                if types_after is not None and len(types_after) != depth:
                    # can_split reads types_after[-1] as the innermost type while split indexes it from the
                    # outermost level: the two only agree when one entry per split level is given (as the
                    # documented callers do), so other lengths are outside the domain
                    continue
                o = call("can_split", can_split, doc, pos, depth, types_after)
                require(o.ok, "can_split:raised", f"can_split({pos},{depth}) raised {o.exc!r}")
                if o.value:
                    perform("split", lambda tr, p=pos, d=depth, x=types_after: tr.split(p, d, x), (pos, depth, case["types_after"] if types_after else None))
                elif depth == 1 and types_after is None and pos % 5 == 0:
                    perform("split", lambda tr, p=pos: tr.split(p, 1), (pos, 1, None), approved=False)
        # ---- can_join / join_point
        nev += 1
        o = call("can_join", can_join, doc, pos)
        require(o.ok, "can_join:raised", f"can_join({pos}) raised {o.exc!r}")
        if o.value:
            perform("join", lambda tr, p=pos: tr.join(p), (pos,))
        elif pos % 5 == 0:
            perform("join", lambda tr, p=pos: tr.join(p), (pos,), approved=False)
        for dir_ in (-1, 1):
            nev += 1
            o = call("join_point", join_point, doc, pos, dir_)
            require(o.ok, "join_point:raised", f"join_point({pos},{dir_}) raised {o.exc!r}")
            if o.value is not None:
                jp = o.value
                require(isinstance(jp, int) and 0 <= jp <= n, "join_point:out-of-range", f"join_point({pos},{dir_}) = {jp}")
                sub = {**base_sub, "helper": "join_point", "args": [pos, dir_]}
                if approval and not 0 < jp < n:
                    fail_unless_known(ctx, ID, "join_point:approved-edge", sub, f"join_point({pos},{dir_}) = {jp}, where nothing can be joined")
                else:
                    perform("join", lambda tr, p=jp: tr.join(p), ("join_point", pos, dir_, jp))
        # ---- insert_point
        for tname, node_p in case["nodes"].items():
            nev += 1
            o = call("insert_point", insert_point, doc, pos, lib.nodes[tname])
            require(o.ok, "insert_point:raised", f"insert_point({pos},{tname}) raised {o.exc!r}")
            if o.value is not None:
                ip = o.value
                require(isinstance(ip, int) and 0 <= ip <= n, "insert_point:out-of-range", f"insert_point({pos},{tname}) = {ip}")
                if not V.node_problems(rs, node_p):
                    perform(
                        "insert_point",
                        lambda tr, p=ip, np=node_p: tr.step(ReplaceStep(p, p, P.build_slice(lib, {"c": [np], "os": 0, "oe": 0}))),
                        (pos, tname, ip),
                        keep_leaves=False,
                    )
        # ---- drop_point
        for si, sl_p in enumerate(case["slices"]):
            nev += 1
            sl = P.build_slice(lib, sl_p)
            o = call("drop_point", drop_point, doc, pos, sl)
            require(o.ok, "drop_point:raised", f"drop_point({pos}, slice {si}) raised {o.exc!r}")
            if o.value is not None:
                dp = o.value
                require(isinstance(dp, int) and 0 <= dp <= n, "drop_point:out-of-range", f"drop_point({pos}) = {dp}")
                if sl_p["c"]:
                    perform("drop_point", lambda tr, p=dp, s=sl: tr.replace(p, p, s), (pos, si, dp), keep_leaves=False)
    # ---- ranges: lift_target / find_wrapping
    conts = [t for t in rs.node_names if not rs.leaf[t] and not rs.inline[t] and t != rs.top]
    # every range of consecutive sibling blocks of the document (first..last child index of every container), besides
    # the drawn position pairs: lifting depends on where in its parent - and in the parent's parent - a range sits
    sib: list = []
    for k_, s_, _par, _i, _d in RR.all_nodes(RR.N(doc_p, rs)) + [(RR.N(doc_p, rs), -1, None, 0, 0)]:
        if k_.is_text or rs.leaf[k_.t] or rs.inline_content[k_.t] or not k_.p["c"]:
            continue
        starts = []
        q = s_ + 1
        for c in k_.p["c"]:
            starts.append(q)
            q += P.size_of([c], lt)
        ends = starts[1:] + [q]
        for i in range(len(starts)):
            for j in range(i, len(starts)):
                sib.append([starts[i], ends[j]])
    if len(sib) > 80:
        sib = sib[:: len(sib) // 80 + 1]
    seen_ranges: set = set()
    for idx, (a, b) in enumerate(list(case["pairs"]) + sib):
        drawn = idx < len(case["pairs"])
        o = call("block_range", lambda a=a, b=b: doc.resolve(a).block_range(doc.resolve(b)))
        require(o.ok, "block_range:raised", repr(o.exc))
        rng = o.value
        if rng is None:
            continue
        key = (rng.start, rng.end, rng.depth)
        if key in seen_ranges:
            continue
        seen_ranges.add(key)
        nev += 1
        o = call("lift_target", lift_target, rng)
        require(o.ok, "lift_target:raised", f"lift_target(range {a},{b}) raised {o.exc!r}")
        if o.value is not None:
            tgt = o.value
            require(isinstance(tgt, int) and 0 <= tgt < rng.depth, "lift_target:out-of-range", f"lift_target({a},{b}) = {tgt} for range depth {rng.depth}")
            perform("lift", lambda tr, r=rng, t=tgt: tr.lift(r, t), ("range", a, b, tgt))
        for wt in conts if drawn or idx % 4 == 0 else []:
            nev += 1
            attrs = rs.default_attrs("node", wt)
            if attrs is None:
                attrs = {x: 1 for x in rs.required[wt]}
            o = call("find_wrapping", find_wrapping, rng, lib.nodes[wt], attrs)
            require(o.ok, "find_wrapping:raised", f"find_wrapping(range {a},{b}, {wt}) raised {o.exc!r}")
            if o.value is not None:
                w = o.value
                require(any(x.type.name == wt for x in w), "find_wrapping:missing-type", f"wrapping {[x.type.name for x in w]} lacks {wt}")
                perform("wrap", lambda tr, r=rng, w=w: tr.wrap(r, w), ("range", a, b, [x.type.name for x in w]))
    ctx.evaluations += nev - 1
    ctx.label("group:" + case["group"])
