"""C18 — edits made inside an isolating node never reach outside it."""
from __future__ import annotations

from ..core import Ctx, call, fail_unless_known, require
from ..draw import Draw
from ..gen import ops as go
from ..gen import schemas
from ..gen.docs import docgen
from ..ref import plain as P
from ..ref import resolve as RR
from ..ref import splice as S
from ..ref import validate as V

ID = "C18"
RULE = (
    "isolating / table-like schemas (iso, table, table_strict, table_iso: isolating containers and cells nested up to 3 deep); valid document "
    "containing at least one isolating node; a range inside the content of an isolating node N (whole content, empty ranges at both edges, "
    "random sub-ranges); any slice (incl. slices containing isolating nodes); each replace-family operation; lift_target on block ranges and "
    "can_split (depth 1..4) at positions inside N. Non-trivial = the range covers the whole content of N or touches an edge of it, or the slice "
    "contains an isolating node, and the operation changed the document; distinct by (schema, document, operation)."
)
ASSUMPTIONS = [
    "N is the innermost isolating node containing both ends of the range",
    "an operation that raises is judged by C11 (totality), not here",
]
LEVEL_TEXT = (
    "Generated-input search focused on ranges inside isolating nodes: after each replace-family operation the token sequence before N's "
    "opening token (inclusive, with N's type/attrs/marks) and from N's closing token on must be unchanged; lift targets and approved splits "
    "must stay inside N. Sampling."
)
LEVEL_NOTE = "Trusted: flat tokens and the reference resolver for locating N."
TECHNIQUE = "property-based testing (Hypothesis) with a token prefix/suffix invariance oracle around the isolating node"
BUDGET = {
    "quick": {"shards": 8, "examples": 900},
    "thorough": {"shards": 16, "examples": 20000},
}

ZOO_NAMES = schemas.ISOLATING


def _iso_nodes(rs, rdoc):  # noqa: ANN001, ANN202
    return [(k, s, depth + 1) for k, s, _par, _i, depth in RR.all_nodes(rdoc) if k.t in rs.isolating]


def generate(R: Draw, tier: str) -> dict:
    sref = R.choice(ZOO_NAMES)
    lib, rs = schemas.get(sref)
    g = docgen(rs)
    doc = g.doc(R, R.weighted([("small", 4), ("medium", 3)]))
    rdoc = RR.N(doc, rs)
    if not _iso_nodes(rs, rdoc):
        t = "iso" if "iso" in rs.nodes else "table"
        extra = g.node(R, t, 3, 24)
        doc = {**doc, "c": doc["c"] + [extra]}
        if R.bool(0.5):
            doc = {**doc, "c": [doc["c"][-1]] + doc["c"][:-1]}
        rdoc = RR.N(doc, rs)
    isos = _iso_nodes(rs, rdoc)
    k, s, _d = R.choice(isos)
    lo, hi = s + 1, s + 1 + k.content_size
    how = R.weighted([("whole", 3), ("start-edge", 1), ("end-edge", 1), ("from-start", 2), ("to-end", 2), ("random", 4)])
    if how == "whole":
        frm, to = lo, hi
    elif how == "start-edge":
        frm = to = lo
    elif how == "end-edge":
        frm = to = hi
    else:
        frm = lo if how == "from-start" else R.int(lo, hi)
        to = hi if how == "to-end" else R.int(frm, hi)
    node = P.build(lib, doc)
    kind = R.choice(go.REPLACE_FAMILY)
    op = go.gen_op(R, g, lib, node, [kind])
    if "pos" in op:
        op["pos"] = R.choice([frm, to])
    else:
        op["from"], op["to"] = frm, to
    return {"schema": sref, "doc": doc, "op": op}


def innermost_iso(rs, rdoc, frm: int, to: int):  # noqa: ANN001, ANN202
    """(start position of N, size) of the innermost isolating node whose content contains both positions, or None."""
    best = None
    for k, s, d in _iso_nodes(rs, rdoc):
        if s + 1 <= frm and to <= s + 1 + k.content_size:
            if best is None or d > best[2]:
                best = (s, k.size, d, k)
    return best


def check(case: dict, ctx: Ctx) -> None:
    from prosemirror.transform import Transform, can_split, lift_target

    lib, rs = schemas.get(case["schema"])
    doc_p = case["doc"]
    assert not V.node_problems(rs, doc_p)
    op = case["op"]
    k = op["op"]
    frm = op.get("from", op.get("pos"))
    to = op.get("to", op.get("pos"))
    rdoc = RR.N(doc_p, rs)
    found = innermost_iso(rs, rdoc, frm, to)
    if found is None:
        ctx.label("skipped:no-isolating-ancestor")
        return
    b, size, ndepth, nnode = found
    a = b + size  # position after N
    lt = rs.leaf_types
    T0 = P.tokens_of(doc_p["c"], lt)
    doc = P.build(lib, doc_p)
    ctx.label("op:" + k)
    ctx.label("N:" + nnode.t)
    # ---- helpers must stay inside N
    nev = 0
    for pos in {frm, to, b + 1, a - 1}:
        lp = doc.resolve(pos)
        for depth in (1, 2, 3, 4):
            nev += 1
            o = call("can_split", can_split, doc, pos, depth)
            require(o.ok, "can_split:raised", f"can_split({pos},{depth}) raised {o.exc!r}")
            if o.value:
                # the `depth` innermost ancestors are split: none may be isolating
                names = [lp.node(lp.depth - i).type.name for i in range(depth) if lp.depth - i >= 1]
                bad = [x for x in names if x in rs.isolating]
                require(not bad, "can_split:splits-isolating", f"can_split({pos},{depth}) approves splitting {bad}")
    for x, y in ((frm, to), (frm, frm), (to, to), (b + 1, a - 1)):
        o = call("block_range", lambda x=x, y=y: doc.resolve(x).block_range(doc.resolve(y)))
        if not o.ok or o.value is None:
            continue
        rng = o.value
        f2 = innermost_iso(rs, rdoc, rng.start, rng.end)
        nev += 1
        t = call("lift_target", lift_target, rng)
        require(t.ok, "lift_target:raised", repr(t.exc))
        if t.value is not None and f2 is not None:
            require(t.value >= f2[2], "lift_target:crosses-isolating", f"lift_target(range {rng.start}..{rng.end}) = {t.value}, isolating ancestor {f2[3].t} at depth {f2[2]}")
            ctx.label("lift_target:inside")
    # ---- the edit
    tr = Transform(doc)
    o = call(k, go.apply_op, tr, lib, op, reject=(Exception,))
    if not o.ok:
        ctx.label("raised:" + type(o.exc).__name__)
        ctx.evaluations += nev
        return
    got = P.plain(tr.doc)
    T1 = P.tokens_of(got["c"], lt)
    tail = len(T0) - a + 1
    sub = {"mode": "c18", "schema": case["schema"], "doc": doc_p, "op": op, "N": [b, a]}
    ok_before = T1[: b + 1] == T0[: b + 1]
    ok_after = len(T1) >= tail and T1[len(T1) - tail :] == T0[a - 1 :]
    if not (ok_before and ok_after):
        side = "before/at the opening of" if not ok_before else "from the closing of"
        fail_unless_known(
            ctx,
            ID,
            "isolating:leak",
            sub,
            f"{k}({frm},{to}) inside isolating {nnode.t} [{b},{a}] changed tokens {side} the node: {got['c']}",
        )
        ctx.evaluations += nev
        return
    inner0, inner1 = T0[b + 1 : a - 1], T1[b + 1 : len(T1) - tail]
    changed = inner0 != inner1
    edge = frm == b + 1 or to == a - 1
    slice_iso = "slice" in op and any(tok[0] == "open" and tok[1] in rs.isolating for tok in P.tokens_of(op["slice"]["c"], lt))
    if edge:
        ctx.label("range:touches-edge")
    if frm == b + 1 and to == a - 1:
        ctx.label("range:whole-content")
    if slice_iso:
        ctx.label("slice:has-isolating")
    if changed and (edge or slice_iso):
        ctx.nontrivial([case["schema"], doc_p, op])
    ctx.evaluations += nev
    _ = S
