"""C10 — documents and their parts are immutable values.

A *program* is a list of operations over a growing pool of live objects (documents, fragments, slices,
mark lists, steps, step maps, a mapping and a transform).  It is generated statefully: the generator
runs the same interpreter as the check, so every argument refers to an existing pool entry / position.
After EVERY operation every live object's snapshot (plain-data view AND to_json()) must be unchanged;
only the Transform and the Mapping being appended to may grow, and only by appending.
"""
from __future__ import annotations

import copy
import json
from typing import Any

from ..core import Ctx, Hang, Violation, require, time_limit
from ..draw import Draw
from ..gen import ops as go
from ..gen import schemas
from ..gen import steps as gs
from ..gen.docs import docgen
from ..ref import plain as P

ID = "C10"
RULE = (
    "schema from the zoo or random; a pool seeded with two documents, their fragments, slices, mark lists; then 3..25 (quick) / 3..50 "
    "(thorough) operations drawn statefully from: model queries (resolve+accessors, nodes_between, text_between, node_at, check, eq, diff), "
    "slice/cut/replace/copy/mark, fragment algebra, mark-set algebra, allowed_marks, step apply/invert/map/merge/get_map, every Transform "
    "operation, JSON conversion, HTML export/import (bundled schemas), structure helpers, fill_before/find_wrapping/create_and_fill, and "
    "Mapping programs over up to four live mappings (append_map with and without a mirror, append_mapping(_inverted), copy, slice, invert; "
    "copies stay live and are appended to later - only the mapping an operation appends to may change, maps and mirror table by appending). "
    "Results join the pool. Non-trivial = a program of >=3 operations in which some sub-tree object is shared by identity between >=2 live "
    "documents; distinct by (schema, program)."
)
ASSUMPTIONS = [
    "Mapping.slice shares its list with the original by design; the program never appends to a slice",
    "caches (wrap_cache, schema.cached) are not values in the property's sense",
    "operations that raise are allowed (their own correctness is judged by other properties); snapshots are checked regardless",
]
LEVEL_TEXT = (
    "Stateful model-based testing: random programs over a pool of live library objects; an invariant (every previously obtained object "
    "still has the same plain-data view and serialises to the same JSON; singletons stay empty; argument lists are unchanged; accumulators "
    "only append) is evaluated after every operation. Sampling over programs."
)
LEVEL_NOTE = "Trusted: snapshots taken through attribute reads (ref/plain.py) plus the library's own to_json at creation time."
TECHNIQUE = "stateful property-based testing (Hypothesis-drawn programs over an object pool) with a snapshot invariant after every step"
BUDGET = {
    "quick": {"shards": 8, "examples": 250},
    "thorough": {"shards": 16, "examples": 6000},
}

ZOO_NAMES = schemas.GROUP_V + schemas.GROUP_X + schemas.MARK_VARIANTS + ["restricted_marks", "restricted_marks"]

OPS = [
    "resolve",
    "traverse",
    "text",
    "slice",
    "cut",
    "replace",
    "copy_mark",
    "frag_algebra",
    "mark_algebra",
    "allowed_marks",
    "check_eq_diff",
    "json_roundtrip",
    "step_apply",
    "step_invert_map_merge",
    "transform",
    "transform",
    "transform",
    "mapping",
    "helpers",
    "content_match",
    "html",
]


class Pool:
    def __init__(self, lib: Any, rs: Any) -> None:
        self.lib = lib
        self.rs = rs
        self.items: list[dict] = []
        from prosemirror.transform import Mapping

        self.mapping = Mapping()
        # every live Mapping (index 0 = the main one; copies are added by the "copy" operation); `appended` names the
        # ones the current operation appends to - all others must keep their whole state (maps, mirror table, window)
        self.mappings: list = [self.mapping]
        self.mappings_seen: list = [self.mapping_state(self.mapping)]
        self.appended: set = set()
        # objects that are snapshotted and re-inspected like pool items but never handed to later operations
        # (documents rebuilt under another Schema object for HTML conversion)
        self.watched: list[dict] = []
        self.tr: Any = None
        self.tr_seen: dict = {"steps": [], "docs": [], "maps": []}

    # ---- snapshots
    def snap(self, kind: str, obj: Any) -> Any:
        if kind == "node":
            return (P.plain(obj), obj.to_json())
        if kind == "frag":
            return (P.plain_fragment(obj), obj.to_json())
        if kind == "slice":
            return (P.plain_slice(obj), obj.to_json())
        if kind == "marks":
            return ([P.plain_mark(m) for m in obj], [m.to_json() for m in obj])
        if kind == "step":
            return (gs.describe_step(obj), obj.to_json())
        if kind == "map":
            return (list(obj.ranges), bool(obj.inverted))
        raise ValueError(kind)

    @staticmethod
    def mapping_state(m: Any) -> dict:
        return {
            "maps": [(list(x.ranges), bool(x.inverted)) for x in m.maps],
            "mirror": list(m.mirror or []),
            "window": (m.from_, m.to),
        }

    def add(self, kind: str, obj: Any, origin: str) -> None:
        if len(self.items) >= 40:
            return
        self.items.append({"kind": kind, "obj": obj, "snap": copy.deepcopy(self.snap(kind, obj)), "origin": origin})

    def watch(self, kind: str, obj: Any, origin: str) -> None:
        if len(self.watched) < 10:
            self.watched.append({"kind": kind, "obj": obj, "snap": copy.deepcopy(self.snap(kind, obj)), "origin": origin})

    def of(self, kind: str) -> list[int]:
        return [i for i, it in enumerate(self.items) if it["kind"] == kind]

    def verify(self, after: str) -> None:
        from prosemirror.model import Fragment, Mark, Slice
        from prosemirror.transform import StepMap

        for i, it in enumerate(self.items + self.watched):
            try:
                now = self.snap(it["kind"], it["obj"])
            except Exception as e:  # noqa: BLE001
                raise Violation("immutable:snapshot-raised", f"after {after}: pool[{i}] ({it['kind']} from {it['origin']}) can no longer be read: {e!r}") from None
            if now != it["snap"]:
                which = "plain view" if now[0] != it["snap"][0] else "to_json()"
                raise Violation(
                    "immutable:changed",
                    f"after {after}: pool[{i}] ({it['kind']} obtained from {it['origin']}) changed its {which}: "
                    f"{json.dumps(now[0], default=repr)[:300]} was {json.dumps(it['snap'][0], default=repr)[:300]}",
                )
        require(Fragment.empty.content == [] and Fragment.empty.size == 0, "singleton:Fragment.empty", f"after {after}: Fragment.empty is no longer empty")
        require(Mark.none == [], "singleton:Mark.none", f"after {after}: Mark.none = {Mark.none!r}")
        require(Slice.empty.content.size == 0 and Slice.empty.open_start == 0 and Slice.empty.open_end == 0, "singleton:Slice.empty", f"after {after}")
        require(StepMap.empty.ranges == [] and not StepMap.empty.inverted, "singleton:StepMap.empty", f"after {after}: StepMap.empty = {StepMap.empty}")
        # accumulators only append
        for j, mp in enumerate(self.mappings):
            cur = self.mapping_state(mp)
            if j < len(self.mappings_seen):
                old = self.mappings_seen[j]
                if j in self.appended:
                    require(
                        cur["maps"][: len(old["maps"])] == old["maps"] and cur["mirror"][: len(old["mirror"])] == old["mirror"],
                        "accumulator:mapping-rewritten",
                        f"after {after}: earlier maps / mirror entries of mapping #{j} changed: {old} -> {cur}",
                    )
                else:
                    require(cur == old, "accumulator:mapping-changed-without-append", f"after {after}: mapping #{j} was not appended to but changed: {old} -> {cur}")
                self.mappings_seen[j] = cur
            else:
                self.mappings_seen.append(cur)
        self.appended = set()
        if self.tr is not None:
            steps = [gs.describe_step(s) for s in self.tr.steps]
            docs = [P.plain(d) for d in self.tr.docs]
            maps = [(list(m.ranges), bool(m.inverted)) for m in self.tr.mapping.maps]
            seen = self.tr_seen
            require(
                steps[: len(seen["steps"])] == seen["steps"] and docs[: len(seen["docs"])] == seen["docs"] and maps[: len(seen["maps"])] == seen["maps"],
                "accumulator:transform-rewritten",
                f"after {after}: earlier steps/docs/maps of the transform changed",
            )
            self.tr_seen = {"steps": steps, "docs": docs, "maps": maps}

    def shared_subtrees(self) -> bool:
        ids: dict[int, int] = {}
        for k, it in enumerate(self.items):
            if it["kind"] != "node":
                continue

            def walk(n: Any, k: int = k) -> bool:
                for c in n.content.content:
                    if ids.get(id(c), k) != k:
                        return True
                    ids[id(c)] = k
                    if walk(c):
                        return True
                return False

            if walk(it["obj"]):
                return True
        return False


def _guard(fn, *a, **kw):  # noqa: ANN001, ANN002, ANN003, ANN202
    """Run one library call of the program; exceptions and hangs end that call only."""
    try:
        with time_limit(5.0):
            return fn(*a, **kw)
    except (Exception, Hang):  # noqa: BLE001
        return None


def run_op(pool: Pool, op: dict) -> None:
    """Interpreter shared by generation and checking."""
    from prosemirror.model import Fragment, Mark, Node, Slice
    from prosemirror.transform import Mapping, Step, StepMap, Transform

    lib, rs = pool.lib, pool.rs
    k = op["k"]
    it = pool.items
    if k == "resolve":
        d = it[op["doc"]]["obj"]
        for pos in op["pos"]:
            rp = _guard(d.resolve, pos)
            if rp is None:
                continue
            ms = _guard(rp.marks)
            if ms is not None:
                pool.add("marks", ms, "ResolvedPos.marks")
                # a caller is free to extend ITS copy; the returned list must not be a live internal one
            for name in ("node_before", "node_after", "parent"):
                n = _guard(lambda name=name: getattr(rp, name))
                if n is not None:
                    pool.add("node", n, f"ResolvedPos.{name}")
            other = _guard(d.resolve, op["pos"][0])
            if other is not None:
                _guard(rp.marks_across, other)
                _guard(rp.block_range, other)
                _guard(rp.shared_depth, op["pos"][0])
    elif k == "traverse":
        d = it[op["doc"]]["obj"]
        seen: list = []
        _guard(d.nodes_between, op["from"], op["to"], lambda n, p, par, i: seen.append(n) and None)
        _guard(d.descendants, lambda n, p, par, i: None)
        for n in seen[:3]:
            pool.add("node", n, "nodes_between")
        n = _guard(d.node_at, op["from"])
        if n is not None:
            pool.add("node", n, "node_at")
        _guard(d.child_after, 0)
        _guard(d.child_before, d.content.size)
        if lib.marks:
            _guard(d.range_has_mark, op["from"], op["to"], next(iter(lib.marks.values())))
    elif k == "text":
        d = it[op["doc"]]["obj"]
        _guard(d.text_between, op["from"], op["to"], "|", "~")
        _guard(lambda: d.text_content)
        _guard(str, d)
    elif k == "slice":
        d = it[op["doc"]]["obj"]
        s = _guard(d.slice, op["from"], op["to"], op.get("parents", False))
        if s is not None:
            pool.add("slice", s, "Node.slice")
            pool.add("frag", s.content, "Slice.content")
            mo = _guard(Slice.max_open, s.content)
            if mo is not None:
                pool.add("slice", mo, "Slice.max_open")
    elif k == "cut":
        d = it[op["doc"]]["obj"]
        n = _guard(d.cut, op["from"], op["to"])
        if n is not None:
            pool.add("node", n, "Node.cut")
        f = _guard(d.content.cut, op["from"], op["to"])
        if f is not None:
            pool.add("frag", f, "Fragment.cut")
    elif k == "replace":
        d = it[op["doc"]]["obj"]
        s = it[op["slice"]]["obj"]
        n = _guard(d.replace, op["from"], op["to"], s)
        if n is not None:
            pool.add("node", n, "Node.replace")
        s2 = _guard(s.insert_at, 0, d.content)
        if s2 is not None:
            pool.add("slice", s2, "Slice.insert_at")
        s3 = _guard(s.remove_between, 0, min(1, s.size))
        if s3 is not None:
            pool.add("slice", s3, "Slice.remove_between")
        # the same LIVE slice (and live steps) handed to the transform layer: fitting must work on its own copies
        for how in ("replace", "replace_range"):
            tr = Transform(d)
            _guard(getattr(tr, how), op["from"], op["to"], s)
            for st_ in tr.steps[:2]:
                pool.add("step", st_, f"Transform.{how}(live slice)")
            if tr.steps:
                pool.add("node", tr.doc, f"Transform.{how}(live slice)")
        from prosemirror.transform import replace_step as _replace_step

        st_ = _guard(_replace_step, d, op["from"], op["to"], s)
        if st_ is not None:
            pool.add("step", st_, "replace_step(live slice)")
    elif k == "copy_mark":
        d = it[op["doc"]]["obj"]
        ms = it[op["marks"]]["obj"]
        before = list(ms)
        n = _guard(d.mark, ms)
        if n is not None:
            pool.add("node", n, "Node.mark")
        require(list(ms) == before and all(a is b for a, b in zip(ms, before)), "argument:mark-list-mutated", "Node.mark changed the list passed in")
        n = _guard(d.copy, it[op["frag"]]["obj"])
        if n is not None:
            pool.add("node", n, "Node.copy")
        kids = list(d.content.content)
        attrs = copy.deepcopy(d.attrs)
        before_attrs = copy.deepcopy(attrs)
        n = _guard(d.type.create, attrs, kids, ms)
        require(attrs == before_attrs, "argument:attrs-mutated", "NodeType.create changed the attrs dict passed in")
        require(len(kids) == len(d.content.content) and all(a is b for a, b in zip(kids, d.content.content)), "argument:node-list-mutated", "NodeType.create changed the node list passed in")
        if n is not None:
            pool.add("node", n, "NodeType.create")
    elif k == "frag_algebra":
        f1 = it[op["a"]]["obj"]
        f2 = it[op["b"]]["obj"]
        for name, fn in (
            ("Fragment.append", lambda: f1.append(f2)),
            ("Fragment.cut_by_index", lambda: f1.cut_by_index(0, min(1, f1.child_count))),
            ("Fragment.add_to_start", lambda: f1.add_to_start(f2.content[0]) if f2.content else None),
            ("Fragment.add_to_end", lambda: f1.add_to_end(f2.content[-1]) if f2.content else None),
            ("Fragment.replace_child", lambda: f1.replace_child(0, f2.content[0]) if f1.content and f2.content else None),
            ("Fragment.from_array", lambda: Fragment.from_array(list(f1.content) + list(f2.content))),
            ("Fragment.from_", lambda: Fragment.from_(list(f2.content))),
        ):
            r = _guard(fn)
            if r is not None:
                pool.add("frag", r, name)
        _guard(f1.eq, f2)
        _guard(f1.find_index, min(op.get("pos", 0), f1.size))
        _guard(f1.for_each, lambda n, p, i: None)
    elif k == "mark_algebra":
        ms = it[op["marks"]]["obj"]
        before = list(ms)
        m = P.build_mark(lib, op["mark"])
        for name, fn in (
            ("Mark.add_to_set", lambda: m.add_to_set(ms)),
            ("Mark.remove_from_set", lambda: m.remove_from_set(ms)),
            ("Mark.set_from", lambda: Mark.set_from(list(reversed(ms)) + [m])),
            ("MarkType.remove_from_set", lambda: m.type.remove_from_set(ms)),
        ):
            r = _guard(fn)
            if r is not None:
                pool.add("marks", r, name)
        _guard(m.is_in_set, ms)
        _guard(Mark.same_set, ms, before)
        require(len(ms) == len(before) and all(a is b for a, b in zip(ms, before)), "argument:mark-list-mutated", f"mark-set algebra changed the list passed in (mark {op['mark']})")
        # an UNSORTED caller-held list (set_from documents that it accepts one) handed to everything that builds a mark
        # set from it: it has to come back exactly as it was
        unsorted = list(reversed(ms)) + ([m] if not any(x.type is m.type for x in ms) else [])
        kept = list(unsorted)
        r = _guard(Mark.set_from, unsorted)
        if r is not None and r is not unsorted:
            pool.add("marks", r, "Mark.set_from(unsorted)")
        n_ = _guard(lib.text, "t", unsorted)
        if n_ is not None:
            pool.add("node", n_, "Schema.text(unsorted marks)")
        for t in list(lib.nodes.values())[:4]:
            if not t.is_text:
                n_ = _guard(t.create, None, None, unsorted)
                if n_ is not None:
                    pool.add("node", n_, "NodeType.create(unsorted marks)")
        require(len(unsorted) == len(kept) and all(a is b for a, b in zip(unsorted, kept)), "argument:mark-list-mutated", "a mark list passed to set_from / text / create was reordered or changed in place")
    elif k == "allowed_marks":
        ms = it[op["marks"]]["obj"]
        before = list(ms)
        for t in lib.nodes.values():
            r = _guard(t.allowed_marks, ms)
            if r is not None and r is not ms:
                pool.add("marks", r, "NodeType.allowed_marks")
            _guard(t.allows_marks, ms)
        require(len(ms) == len(before) and all(a is b for a, b in zip(ms, before)), "argument:mark-list-mutated", "allowed_marks changed the list passed in")
    elif k == "check_eq_diff":
        a = it[op["a"]]["obj"]
        b = it[op["b"]]["obj"]
        _guard(a.check)
        _guard(a.eq, b)
        _guard(a.same_markup, b)
        _guard(a.content.find_diff_start, b.content)
        _guard(a.content.find_diff_end, b.content)
        _guard(a.can_append, b)
        _guard(a.can_replace, 0, a.child_count, b.content)
    elif k == "json_roundtrip":
        o = it[op["obj"]]
        kind = o["kind"]
        j = _guard(o["obj"].to_json) if kind in ("node", "slice", "frag", "step") else None
        if j is not None:
            wire = json.loads(json.dumps(j))
            if kind == "node":
                n = _guard(Node.from_json, lib, wire)
                if n is not None:
                    pool.add("node", n, "Node.from_json")
            elif kind == "slice":
                s = _guard(Slice.from_json, lib, wire)
                if s is not None:
                    pool.add("slice", s, "Slice.from_json")
            elif kind == "frag":
                f = _guard(Fragment.from_json, lib, wire)
                if f is not None:
                    pool.add("frag", f, "Fragment.from_json")
            elif kind == "step":
                s = _guard(Step.from_json, lib, wire)
                if s is not None:
                    pool.add("step", s, "Step.from_json")
    elif k == "step_apply":
        st = it[op["step"]]["obj"]
        d = it[op["doc"]]["obj"]
        r = _guard(st.apply, d)
        if r is not None and r.doc is not None:
            pool.add("node", r.doc, "Step.apply")
        m = _guard(st.get_map)
        if m is not None:
            pool.add("map", m, "Step.get_map")
    elif k == "step_invert_map_merge":
        st = it[op["step"]]["obj"]
        d = it[op["doc"]]["obj"]
        inv = _guard(st.invert, d)
        if inv is not None:
            pool.add("step", inv, "Step.invert")
        mp = it[op["map"]]["obj"] if op.get("map") is not None else StepMap([0, 0, 1])
        r = _guard(st.map, mp)
        if r is not None:
            pool.add("step", r, "Step.map")
        r = _guard(st.map, pool.mapping)
        if r is not None:
            pool.add("step", r, "Step.map(Mapping)")
        other = it[op["other"]]["obj"]
        r = _guard(st.merge, other)
        if r is not None:
            pool.add("step", r, "Step.merge")
    elif k == "transform":
        d = it[op["doc"]]["obj"]
        if pool.tr is None or op.get("fresh"):
            pool.tr = Transform(d)
            pool.tr_seen = {"steps": [], "docs": [], "maps": []}
        tr = pool.tr
        n0 = len(tr.steps)
        _guard(go.apply_op, tr, lib, op["op"])
        pool.add("node", tr.doc, "Transform.doc")
        for s in tr.steps[n0 : n0 + 2]:
            pool.add("step", s, "Transform.steps")
        for m in tr.mapping.maps[n0 : n0 + 1]:
            pool.add("map", m, "Transform.mapping.maps")
    elif k == "mapping":
        maps = [it[i]["obj"] for i in op["maps"]]
        ti = op.get("target", 0) % len(pool.mappings)
        target = pool.mappings[ti]
        pool.appended = {ti}
        for m in maps:
            _guard(target.append_map, m)
        if op.get("mirrored") and maps:
            # a map followed by its inverse registered as its mirror (what rebasing records)
            iv0 = _guard(maps[-1].invert)
            if iv0 is not None:
                _guard(target.append_map, iv0, len(target.maps) - 1)
        other = Mapping()
        for m in maps:
            other.append_map(m)
        if maps:
            other.append_map(maps[0].invert(), 0)
        how = op["how"]
        if how == "append_mapping":
            _guard(target.append_mapping, other)
        elif how == "append_inverted":
            _guard(target.append_mapping_inverted, other)
        elif how == "invert":
            inv = _guard(other.invert)
            if inv is not None:
                for m in inv.maps[:2]:
                    pool.add("map", m, "Mapping.invert")
        elif how == "copy":
            c = _guard(target.copy)
            if c is not None:
                if len(pool.mappings) < 4:
                    pool.mappings.append(c)  # later operations append to the copy (or to the original)
                else:
                    _guard(c.append_map, StepMap([0, 0, 1]))
        elif how == "slice":
            sl = _guard(target.slice, op.get("a", 0), min(len(target.maps), op.get("b", 1)))
            if sl is not None:
                _guard(sl.map, 1, 1)
                _guard(sl.invert)
        for pos in (0, 1, 3):
            _guard(target.map, pos, 1)
            _guard(target.map_result, pos, -1)
            _guard(other.map, pos, -1)
            for mp in pool.mappings:
                _guard(mp.map_result, pos, 1)
        for m in maps:
            iv = _guard(m.invert)
            if iv is not None:
                pool.add("map", iv, "StepMap.invert")
            _guard(m.for_each, lambda a, b, c, d: None)
    elif k == "helpers":
        from prosemirror.transform import can_join, can_split, drop_point, find_wrapping, insert_point, join_point, lift_target

        d = it[op["doc"]]["obj"]
        s = it[op["slice"]]["obj"]
        pos = op["pos"]
        _guard(can_split, d, pos, 1)
        _guard(can_split, d, pos, 2)
        rp0 = _guard(d.resolve, pos)
        if rp0 is not None:
            # can_split with one types_after entry per split level: the ancestors' own types (always plausible) and
            # the variant the program drew; the list itself is an argument and must come back unchanged
            from prosemirror.transform.structure import NodeTypeWithAttrs

            for depth in range(1, min(3, rp0.depth) + 1):
                own = [NodeTypeWithAttrs(rp0.node(rp0.depth - depth + 1 + i).type, rp0.node(rp0.depth - depth + 1 + i).attrs) for i in range(depth)]
                names = op.get("types_after") or []
                drawn = [NodeTypeWithAttrs(lib.nodes[names[i]], None) if i < len(names) and names[i] in lib.nodes else own[i] for i in range(depth)]
                for ta in (own, drawn):
                    before = list(ta)
                    _guard(can_split, d, pos, depth, ta)
                    require(len(ta) == len(before) and all(a is b for a, b in zip(ta, before)), "argument:types-after-mutated", "can_split changed its types_after list")
        _guard(can_join, d, pos)
        _guard(join_point, d, pos, -1)
        _guard(join_point, d, pos, 1)
        _guard(drop_point, d, pos, s)
        for t in list(lib.nodes.values())[:6]:
            _guard(insert_point, d, pos, t)
        rng = _guard(lambda: d.resolve(pos).block_range(d.resolve(min(d.content.size, pos + op.get("span", 0)))))
        if rng is not None:
            _guard(lift_target, rng)
            for t in list(lib.nodes.values())[:8]:
                w = _guard(find_wrapping, rng, t, None)
                if w:
                    before = list(w)
                    tr = Transform(d)
                    _guard(tr.wrap, rng, w)
                    require(len(w) == len(before) and all(a is b for a, b in zip(w, before)), "argument:wrapper-list-mutated", "Transform.wrap changed the wrapper list")
                    pool.add("node", tr.doc, "Transform.wrap")
    elif k == "content_match":
        d = it[op["doc"]]["obj"]
        f = it[op["frag"]]["obj"]
        cm = d.type.content_match
        r = _guard(cm.fill_before, f, False, 0)
        if r is not None:
            pool.add("frag", r, "ContentMatch.fill_before")
        r = _guard(cm.fill_before, Fragment.empty, True)
        if r is not None:
            pool.add("frag", r, "ContentMatch.fill_before")
        for t in list(lib.nodes.values())[:8]:
            _guard(cm.find_wrapping, t)
            if t.is_text:
                continue  # text nodes are only made by schema.text(); create() says so, create_and_fill has no guard
            n = _guard(t.create_and_fill, None, f if op.get("with_content") else None)
            if n is not None:
                pool.add("node", n, "NodeType.create_and_fill")
        _guard(cm.match_fragment, f)
        _guard(lambda: cm.default_type)
    elif k == "html":
        if not op.get("bundled"):
            return
        from prosemirror.model import DOMParser, DOMSerializer

        d = it[op["doc"]]["obj"]
        real = pool.dom_schema
        nd = _guard(Node.from_json, real, d.to_json())
        if nd is None:
            return
        pool.watch("node", nd, "Node.from_json (HTML schema)")
        ser = _guard(DOMSerializer.from_schema, real)
        if ser is None:
            return
        if op.get("live_attrs"):
            # a schema whose toDOM hands the node's / mark's own attrs dict to the serializer (["img", node.attrs],
            # ["a", mark.attrs, 0] - a common way to write toDOM): the output spec is the caller's data
            def live(fn):  # noqa: ANN001, ANN202
                def to_dom(obj, *rest):  # noqa: ANN001, ANN002, ANN202
                    st = fn(obj, *rest)
                    if isinstance(st, list) and st and isinstance(st[0], str) and obj.attrs:
                        if len(st) > 1 and isinstance(st[1], dict):
                            return [st[0], obj.attrs, *st[2:]]
                        return [st[0], obj.attrs, *st[1:]]
                    return st

                return to_dom

            ser = DOMSerializer({k: (v if k == "text" else live(v)) for k, v in ser.nodes.items()}, {k: live(v) for k, v in ser.marks.items()})
        html = _guard(lambda: str(ser.serialize_fragment(nd.content)))
        if html is not None:
            parsed = _guard(lambda: DOMParser.from_schema(real).parse(_parse_html(html)))
            if parsed is not None:
                back = _guard(Node.from_json, lib, parsed.to_json())
                if back is not None:
                    pool.add("node", back, "DOMParser.parse")


def _parse_html(html: str):  # noqa: ANN202
    import lxml.html

    return lxml.html.fragment_fromstring(html, create_parent="div")


def seed_pool(lib: Any, rs: Any, case: dict) -> Pool:
    pool = Pool(lib, rs)
    pool.dom_schema = None
    if case.get("bundled"):
        from prosemirror.schema.basic import schema as basic_schema
        from prosemirror.test_builder import test_schema

        pool.dom_schema = basic_schema if case["schema"] == "basic" else test_schema
    for dp in case["docs"]:
        d = P.build(lib, dp)
        pool.add("node", d, "seed")
        pool.add("frag", d.content, "seed.content")
    for sp in case["slices"]:
        pool.add("slice", P.build_slice(lib, sp), "seed")
    for ms in case["marks"]:
        pool.add("marks", [P.build_mark(lib, m) for m in ms], "seed")
    for st in case["steps"]:
        pool.add("step", gs.build_step(lib, st), "seed")
    from prosemirror.transform import StepMap

    pool.add("map", StepMap([1, 0, 2]), "seed")
    return pool


def generate(R: Draw, tier: str) -> dict:
    sref = schemas.pick_schema(R, ZOO_NAMES, p_random=0.2)
    lib, rs = schemas.get(sref)
    g = docgen(rs)
    docs = [g.doc(R, "small"), g.doc(R, R.choice(["tiny", "small"]))]
    n0 = P.size_of(docs[0]["c"], rs.leaf_types)
    case: dict = {
        "schema": sref,
        "bundled": sref in ("basic", "list"),
        "docs": docs,
        "slices": [gs.rand_slice(R, g, "tiny"), gs.closed_slice(R, g)],
        "marks": [g.mark_set(R, R.choice(rs.node_names), 0.8) if rs.mark_names else [] for _ in range(2)],
        "steps": [gs.random_step(R, g, docs[0], n0) for _ in range(2)],
        "prog": [],
    }
    pool = seed_pool(lib, rs, case)
    n_ops = R.int(3, 25 if tier == "quick" else 50)
    for _ in range(n_ops):
        k = R.choice(OPS)
        nodes = [i for i in pool.of("node") if pool.items[i]["obj"].type.name == rs.top] or pool.of("node")
        di = R.choice(nodes)
        d = pool.items[di]["obj"]
        n = d.content.size
        a = R.int(0, n)
        b = R.int(a, min(n, a + R.int(0, 10)))
        op: dict = {"k": k, "doc": di}
        if k == "resolve":
            op["pos"] = [R.int(0, n) for _ in range(R.int(1, 3))]
        elif k in ("traverse", "text", "cut"):
            op.update({"from": a, "to": b})
        elif k == "slice":
            op.update({"from": a, "to": b, "parents": R.bool(0.3)})
        elif k == "replace":
            op.update({"from": a, "to": b, "slice": R.choice(pool.of("slice"))})
        elif k == "copy_mark":
            op.update({"marks": R.choice(pool.of("marks")), "frag": R.choice(pool.of("frag"))})
        elif k == "frag_algebra":
            op.update({"a": R.choice(pool.of("frag")), "b": R.choice(pool.of("frag")), "pos": R.int(0, 5)})
        elif k in ("mark_algebra", "allowed_marks"):
            if not rs.mark_names:
                continue
            op.update({"marks": R.choice(pool.of("marks")), "mark": g.mark(R, R.choice(rs.mark_names))})
        elif k == "check_eq_diff":
            op.update({"a": R.choice(pool.of("node")), "b": R.choice(pool.of("node"))})
        elif k == "json_roundtrip":
            op["obj"] = R.int(0, len(pool.items) - 1)
        elif k == "step_apply":
            op["step"] = R.choice(pool.of("step"))
        elif k == "step_invert_map_merge":
            op.update({"step": R.choice(pool.of("step")), "other": R.choice(pool.of("step")), "map": R.choice(pool.of("map"))})
        elif k == "transform":
            op["fresh"] = R.bool(0.2)
            base = pool.tr.doc if (pool.tr is not None and not op["fresh"]) else d
            op["op"] = go.gen_op(R, g, lib, base)
        elif k == "mapping":
            op.update({
                "maps": R.sample(pool.of("map"), R.int(1, 2)),
                "how": R.choice(["append_mapping", "append_inverted", "invert", "copy", "copy", "slice", "none"]),
                "target": R.int(0, len(pool.mappings) - 1),
                "mirrored": R.bool(0.5),
                "a": R.int(0, 2),
                "b": R.int(0, 4),
            })
        elif k == "helpers":
            op.update({"pos": a, "span": R.int(0, 8), "slice": R.choice(pool.of("slice"))})
            if R.bool(0.5):
                # aim at a textblock position (deep enough for multi-level splits) and draw alternative types
                from ..ref import resolve as RR

                dp = P.plain(d)
                rdoc = RR.N(dp, rs)
                spots = [p for p in range(n + 1) if RR.RefPos(rs, rdoc, p).depth >= 2]
                if spots:
                    op["pos"] = R.choice(spots)
                op["types_after"] = [R.choice([t for t in rs.node_names if not rs.leaf[t]]) for _ in range(3)]
        elif k == "content_match":
            op.update({"frag": R.choice(pool.of("frag")), "with_content": R.bool(0.5)})
        elif k == "html":
            op["bundled"] = case["bundled"]
            op["live_attrs"] = R.bool(0.5)
        case["prog"].append(op)
        try:
            run_op(pool, op)
            pool.verify("generation")  # never keep generating on top of a corrupted pool
        except Violation:
            break  # the check will find it again
    return case


def check(case: dict, ctx: Ctx) -> None:
    if not schemas.in_domain(case["schema"]):
        ctx.label("skipped:schema-not-well-founded")
        return
    lib, rs = schemas.get(case["schema"])
    pool = seed_pool(lib, rs, case)
    pool.verify("seeding")
    for j, op in enumerate(case["prog"]):
        tag = f"op {j} {op['k']}" + (f"/{op['op']['op']}" if op["k"] == "transform" else "")
        run_op(pool, op)
        pool.verify(tag)
        ctx.label("op:" + op["k"])
        ctx.evaluations += 1
    ctx.evaluations -= 1
    ctx.labels["pool-objects"] += len(pool.items)
    if len(case["prog"]) >= 3 and pool.shared_subtrees():
        ctx.label("program:shares-subtrees")
        ctx.nontrivial([case["schema"] if isinstance(case["schema"], str) else "random", case["docs"], case["prog"]])
