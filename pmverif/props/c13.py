"""C13 — adding and removing marks over a range has exactly the documented effect;
node-level mark/attribute edits change only the addressed node; changing block type / node markup keeps the children."""
from __future__ import annotations

import copy
import re

from ..core import Ctx, call, fail_unless_known, require
from ..draw import Draw
from ..gen import ops as go
from ..gen import schemas
from ..gen.docs import docgen
from ..gen.mutate import normalize_children
from ..ref import marks as rm
from ..ref import plain as P
from ..ref import resolve as RR
from ..ref import rx
from ..ref import validate as V

ID = "C13"
RULE = (
    "schema from the zoo, the mark variants (non-exclusive, asymmetric and group exclusion, permuted declaration orders) or random; valid "
    "document; one operation: add_mark, remove_mark (mark / mark type / all), add_node_mark, remove_node_mark (mark / type), "
    "set_node_attribute, set_doc_attribute, set_node_markup, set_block_type; ranges split text nodes and cross block boundaries. The expected "
    "document is computed token by token with the reference mark algebra. Non-trivial = the range splits a text node or crosses a block, a "
    "mark displaces another or is refused, a parent disallows the mark, or the edit changed the document; distinct by (schema, document, op)."
)
ASSUMPTIONS = [
    "a mark operation refused inside a textblock whose content expression counts its inline children (inline{0,2}) is not judged: splitting a text node makes the intermediate document invalid there",
    "inline nodes are leaves (upstream documents inline nodes with content as unsupported by mark steps)",
    "set_block_type is predicted exactly when the target's content expression is a starred choice (single-state matcher, as all bundled "
    "textblocks); otherwise only validity and that remaining children are an in-order subsequence are asserted",
    "a value of None for an attribute with a default selects the default (the port's defaulting)",
]
LEVEL_TEXT = (
    "Generated-input search: for every generated (document, operation) the exact expected document is computed by a reference (mark "
    "algebra from the schema spec applied per token / per addressed node) and compared with the result of the Transform operation. Sampling."
)
LEVEL_NOTE = "Trusted: pmverif/ref/marks.py (documented addToSet / exclusion rules), ref/resolve.py for locating nodes, ref/validate.py."
TECHNIQUE = "property-based testing (Hypothesis) with an exact expected-document oracle from a reference mark algebra"
BUDGET = {
    "quick": {"shards": 8, "examples": 1600},
    "thorough": {"shards": 16, "examples": 25000},
}

ZOO_NAMES = schemas.GROUP_V + schemas.MARK_VARIANTS * 3 + ["structure", "inline_box", "inline_box"]
KINDS = [
    "add_mark",
    "add_mark",
    "add_mark",
    "remove_mark",
    "remove_mark",
    "add_node_mark",
    "remove_node_mark",
    "set_node_attribute",
    "set_doc_attribute",
    "set_node_markup",
    "set_block_type",
    "set_block_type",
]


def generate(R: Draw, tier: str) -> dict:
    sref = schemas.pick_schema(R, ZOO_NAMES, p_random=0.3)
    if isinstance(sref, str) and sref in schemas.MARK_VARIANTS and R.bool(0.5):
        spec = schemas.spec_of(sref)
        order = R.shuffle(list(spec["marks"]))
        sref = {"nodes": spec["nodes"], "marks": {m: spec["marks"][m] for m in order}}
    lib, rs = schemas.get(sref)
    g = docgen(rs)
    doc = g.doc(R, R.weighted([("small", 5), ("medium", 2)]))
    focus = None
    if sref == "inline_box" and R.bool(0.5):
        focus = _container_focus(R, g, rs)
    elif R.bool(0.35):
        focus = _exclusion_focus(R, g, rs, doc)
    elif R.bool(0.2):
        focus = _removal_focus(R, g, rs, doc)
    if focus is not None:
        doc, op = focus
        return {"schema": sref, "doc": doc, "op": op}
    node = P.build(lib, doc)
    op = go.gen_op(R, g, lib, node, KINDS, steer=0.8)
    return {"schema": sref, "doc": doc, "op": op}


def _container_focus(R: Draw, g, rs):  # noqa: ANN001, ANN202
    """Inline containers (an inline node holding text): marked text inside the container next to marked text outside
    it, the container itself marked or not - and one mark operation across all of it."""
    m = g.mark(R, R.choice(rs.mark_names))
    other = g.mark(R, R.choice(rs.mark_names))

    def ms(p: float) -> list:
        cur: list = []
        if R.bool(p):
            cur = rm.ref_add(rs, m, cur)
        if R.bool(0.3):
            cur = rm.ref_add(rs, other, cur)
        return cur

    def text(p: float) -> dict:
        return P.mk("text", {}, None, ms(p), R.choice(["ab", "c", "def"]))

    kids = []
    for _ in range(R.int(2, 4)):
        if R.bool(0.5):
            kids.append(P.mk("chip", {"id": None}, normalize([text(0.7) for _ in range(R.int(1, 2))]), ms(0.5)))
        else:
            kids.append(text(0.6))
    para = P.mk("paragraph", {}, normalize(kids))
    doc = P.mk("doc", {}, [P.mk("paragraph", {}, [P.mk("text", {}, None, [], "x")]), para])
    if V.node_problems(rs, doc):
        return None
    n = P.size_of(doc["c"], rs.leaf_types)
    a = R.int(3, min(n, 6))
    b = R.int(max(a, n - 4), n)
    k = R.weighted([("remove_mark", 5), ("add_mark", 3)])
    if k == "add_mark":
        return doc, {"op": "add_mark", "from": a, "to": b, "mark": m}
    how = R.weighted([("type", 4), ("all", 3), ("mark", 3)])
    return doc, {"op": "remove_mark", "from": a, "to": b, "mark": m if how == "mark" else None, "type": m[0] if how == "type" else None}


def normalize(kids: list) -> list:
    from ..gen.mutate import normalize_children

    return normalize_children(kids)


def _removal_focus(R: Draw, g, rs, doc: dict):  # noqa: ANN001, ANN202
    """Two or three consecutive inline nodes of one textblock get marks of the SAME type with DIFFERENT attributes
    (link x | link y), and the mark type / all marks are removed over a range covering them."""
    from ..gen import mutate as mu
    from ..ref import resolve as RR

    with_attrs = [m for m in rs.mark_names if rs.marks[m].get("attrs")]
    if not with_attrs:
        return None
    m = R.choice(with_attrs)
    blocks = [p for p in mu.paths(doc) if rs.textblock.get(mu.get_at(doc, p)["t"]) and rs.allows_mark(mu.get_at(doc, p)["t"], m)]
    if not blocks:
        return None
    path = R.choice(blocks)
    tb = mu.get_at(doc, path)
    pieces = []
    if R.bool(0.3):
        # one text node carrying as many marks as the parent allows, the range will start inside it
        cur: list = []
        for name in R.shuffle(rs.mark_names):
            if rs.allows_mark(tb["t"], name):
                cur = rm.ref_add(rs, g.mark(R, name), cur)
        pieces.append(P.mk("text", {}, None, cur, "abcdef"))
    first_mark = None
    for i in range(R.int(1 if pieces else 2, 3)):
        mk0 = g.mark(R, m)
        first_mark = first_mark or mk0
        marks = rm.ref_add(rs, mk0, g.mark_set(R, tb["t"], 0.3))
        if not rs.excludes(m, m) and R.bool(0.6):
            # a type that does not exclude itself: a second mark of the same type, other attributes, on the SAME node
            for _ in range(4):
                mk1 = g.mark(R, m)
                if mk1 != mk0:
                    marks = rm.ref_add(rs, mk1, marks)
                    break
        pieces.append(P.mk("text", {}, None, marks, R.choice(["xx", "y", "zzz"])))
    if "text" not in rx.first(rs.content[tb["t"]]):
        return None
    new_tb = {**tb, "c": mu.normalize_children(list(tb["c"][: R.int(0, len(tb["c"]))]) + pieces)}
    doc2 = mu.replace_at(doc, path, lambda n: new_tb) if path else new_tb
    if V.node_problems(rs, doc2):
        return None
    rdoc = RR.N(doc2, rs)
    spans = [(s_, k.size) for k, s_, _par, _i, _d in RR.all_nodes(rdoc) if k.p is new_tb]
    if not spans:
        return None
    start, size = spans[0]
    a = R.int(start + 1, start + size - 2)
    b = R.int(a, start + size - 1) if R.bool(0.3) else start + size - 1
    how = R.weighted([("type", 5), ("all", 3), ("mark", 4)])
    return doc2, {"op": "remove_mark", "from": a if R.bool(0.5) else start + 1, "to": b, "mark": (first_mark if R.bool(0.7) else g.mark(R, m)) if how == "mark" else None, "type": m if how == "type" else None, "focus_type": m}


def _exclusion_focus(R: Draw, g, rs, doc: dict):  # noqa: ANN001, ANN202
    """Put marks that interact with a chosen mark M on one inline node (a mark M displaces, a mark that refuses M,
    or both at once) and add M over a range that covers part of that node."""
    from ..gen import mutate as mu

    names = rs.mark_names
    if len(names) < 2:
        return None
    cands = [x for x in names if any(y != x and (rs.excludes(x, y) or rs.excludes(y, x)) for y in names)]
    if not cands:
        return None
    m = R.choice(cands)
    displaced = [a for a in names if a != m and rs.excludes(m, a)]
    refusing = [b for b in names if b != m and rs.excludes(b, m) and not rs.excludes(m, b)]
    if not displaced and not refusing:
        return None
    inline_paths = [p for p in mu.paths(doc) if p and rs.inline[mu.get_at(doc, p)["t"]]]
    if not inline_paths:
        return None
    path = R.choice(inline_paths)
    parent = mu.get_at(doc, path[:-1])
    want = []
    if displaced and R.bool(0.8):
        want.append(R.choice(displaced))
    if refusing and R.bool(0.6 if want else 1.0):
        want.append(R.choice(refusing))
    if R.bool(0.5):
        # plus a bystander mark that has nothing to do with M (it must survive, and must not stop the algorithm
        # from looking at the marks after it)
        others = [x for x in names if x != m and x not in want and not rs.excludes(m, x) and not rs.excludes(x, m)]
        if others:
            want.append(R.choice(others))
    cur: list = []
    for name in R.shuffle(want):
        if rs.allows_mark(parent["t"], name):
            cur = rm.ref_add(rs, g.mark(R, name), cur)
    if not cur:
        return None
    doc2 = mu.replace_at(doc, path, lambda n: {**n, "m": cur})
    if V.node_problems(rs, doc2):
        return None
    # absolute range of the chosen node
    from ..ref import resolve as RR

    rdoc = RR.N(doc2, rs)
    try:
        target = mu.get_at(doc2, path)  # the path may be gone when the re-marked text merged with a neighbour
    except IndexError:
        return None
    spans = [(s_, k.size) for k, s_, _par, _i, _d in RR.all_nodes(rdoc) if k.p is target]
    if not spans:
        return None
    start, size = spans[0]
    a = R.int(max(0, start - 2), start + max(0, size - 1))
    b = R.int(max(a, start + 1), min(rdoc.content_size, start + size + 2))
    return doc2, {"op": "add_mark", "from": a, "to": b, "mark": g.mark(R, m)}


# ------------------------------------------------------------------ expected documents


def _map_inline(rs, node: dict, start: int, frm: int, to: int, fn, inside=None, cont_fn=None) -> dict:  # noqa: ANN001
    """Rebuild node applying fn(parent_type, marks) -> marks to inline tokens in [frm,to); splits text as needed.
    `start` = absolute position of node's content start.  An inline node WITH content is one unit for marks: its own
    marks go through cont_fn (default fn) when the range covers it, and - the statement leaves that open - when the
    range only cuts into it and `inside` (a set of such nodes' positions) names it."""
    inside = inside or set()
    cont_fn = cont_fn or fn
    out = []
    pos = start
    for c in node["c"]:
        if c["t"] == "text":
            from ..ref import u16

            n = u16.u16len(c["x"])
            a, b = max(frm, pos), min(to, pos + n)
            if a < b:
                pre = u16.cut(c["x"], 0, a - pos)
                mid = u16.cut(c["x"], a - pos, b - pos)
                post = u16.cut(c["x"], b - pos, n)
                if pre is None or mid is None or post is None:
                    raise MidSurrogate
                if pre:
                    out.append({**c, "x": pre})
                out.append({**c, "x": mid, "m": fn(node["t"], c["m"])})
                if post:
                    out.append({**c, "x": post})
            else:
                out.append(c)
            pos += n
        elif rs.leaf[c["t"]]:
            if rs.inline[c["t"]] and frm <= pos < to:
                out.append({**c, "m": fn(node["t"], c["m"])})
            else:
                out.append(c)
            pos += 1
        else:
            size = P.size_of([c], rs.leaf_types)
            if pos < to and pos + size > frm:
                inner = _map_inline(rs, c, pos + 1, frm, to, fn, inside, cont_fn)
                if rs.inline[c["t"]]:
                    covered = frm <= pos and pos + size <= to
                    if covered or pos in inside:
                        inner = {**inner, "m": cont_fn(node["t"], c["m"])}
                out.append(inner)
            else:
                out.append(c)
            pos += size
    return {**node, "c": normalize_children(out)}


def _count_sensitive_inline(rs, doc: dict, frm: int, to: int) -> bool:  # noqa: ANN001
    """Does the range touch a node with inline content whose expression is not closed under splitting a text node in
    two (some state accepts `text` and, after it, does not stay put on another `text`)?"""
    for k_, s_, _par, _i, _d in RR.all_nodes(RR.N(doc, rs)):
        if k_.is_text or rs.leaf[k_.t] or not rs.inline_content[k_.t]:
            continue
        if not (s_ < to and s_ + k_.size > frm):
            continue
        for st in rx.states(rs.content[k_.t], limit=200):
            d = rx.deriv(st, "text")
            if d is not rx.EMPTY and rx.deriv(d, "text") is not d:
                return True
    return False


def _cut_containers(rs, doc: dict, frm: int, to: int) -> list[int]:  # noqa: ANN001
    """Positions of inline nodes with content that the range cuts into without covering them."""
    out = []
    for k_, s_, _par, _i, _d in RR.all_nodes(RR.N(doc, rs)):
        if k_.is_text or rs.leaf[k_.t] or not rs.inline[k_.t]:
            continue
        if s_ < to and s_ + k_.size > frm and not (frm <= s_ and s_ + k_.size <= to):
            out.append(s_)
    return out


class MidSurrogate(Exception):
    pass


def _replace_node_at(rs, node: dict, start: int, pos: int, fn) -> dict | None:  # noqa: ANN001
    """Apply fn to the node that starts exactly at absolute position pos (text nodes: containing pos)."""
    cur = start
    kids = list(node["c"])
    for i, c in enumerate(kids):
        size = P.size_of([c], rs.leaf_types)
        if cur == pos or (c["t"] == "text" and cur < pos < cur + size):
            kids[i] = fn(c)
            return {**node, "c": kids}
        if cur < pos < cur + size:
            sub = _replace_node_at(rs, c, cur + 1, pos, fn)
            if sub is None:
                return None
            kids[i] = sub
            return {**node, "c": kids}
        cur += size
    return None


_NEWLINE = re.compile(r"\r?\n|\r")


def _is_star_choice(rs, t: str) -> bool:  # noqa: ANN001
    r = rs.content[t]
    return rx.nullable(r) and all(rx.deriv(r, a) is r for a in rx.first(r))


def _convert_block(rs, n: dict, t: str, attrs: dict) -> dict:  # noqa: ANN001
    allowed_types = rx.first(rs.content[t])
    kids = []
    for c in n["c"]:
        if c["t"] not in allowed_types:
            continue
        m = rm.ref_allowed(rs, t, c["m"])
        if c["t"] == "text" and not rs.nodes[t].get("code"):
            kids.append({**c, "m": m, "x": _NEWLINE.sub(" ", c["x"])})
        else:
            kids.append({**c, "m": m})
    return {"t": t, "a": attrs, "m": n["m"], "x": None, "c": normalize_children(kids)}


def _set_block_type(rs, doc: dict, frm: int, to: int, t: str, attrs: dict) -> dict:  # noqa: ANN001
    """Sequential conversion of textblocks overlapping [frm,to] (document order, on the evolving tree)."""

    def walk(node: dict, start: int) -> dict:
        kids = list(node["c"])
        pos = start
        for i, c in enumerate(kids):
            size = P.size_of([c], rs.leaf_types)
            end = pos + size
            # nodes_between(from, to): start < to and end > from ; for from == to that is start < p < end
            if c["t"] != "text" and not rs.leaf[c["t"]] and pos < to and end > frm:
                if rs.textblock[c["t"]]:
                    same = c["t"] == t and c["a"] == attrs and not c["m"]
                    seq = [k["t"] for k in kids]
                    seq[i] = t
                    if not same and rs.accepts(node["t"], seq):
                        kids[i] = _convert_block(rs, c, t, attrs)
                else:
                    kids[i] = walk(c, pos + 1)
            pos = end
        return {**node, "c": kids}

    return walk(doc, 0)


def expected(rs, doc: dict, op: dict, inside=None, displace_only: bool = False):  # noqa: ANN001, ANN201
    """Expected document (plain), or ("reject-ok",) when a refusal is acceptable, or None when nothing exact is claimed.
    `inside`: positions of inline containers the range only cuts into that count as inside the range;
    `displace_only`: inline containers lose the marks the new mark excludes but do not get the mark (known finding)."""
    k = op["op"]
    if k == "add_mark":
        m = op["mark"]
        def add(parent: str, ms: list) -> list:
            return rm.ref_add(rs, m, ms) if rs.allows_mark(parent, m[0]) else ms

        def displace(parent: str, ms: list) -> list:
            new = add(parent, ms)
            return [x for x in ms if rm.in_set(x, new)]

        return _map_inline(rs, doc, 0, op["from"], op["to"], add, inside, displace if displace_only else None)
    if k == "remove_mark":
        if op.get("mark") is not None:
            m = op["mark"]
            return _map_inline(rs, doc, 0, op["from"], op["to"], lambda parent, ms: rm.ref_remove(m, ms), inside)
        if op.get("type") is not None:
            t = op["type"]
            return _map_inline(rs, doc, 0, op["from"], op["to"], lambda parent, ms: rm.ref_remove_type(t, ms), inside)
        return _map_inline(rs, doc, 0, op["from"], op["to"], lambda parent, ms: [], inside)
    if k in ("add_node_mark", "remove_node_mark"):
        def fn(n: dict) -> dict:
            if k == "add_node_mark":
                return {**n, "m": rm.ref_add(rs, op["mark"], n["m"])}
            if op.get("mark") is not None:
                return {**n, "m": rm.ref_remove(op["mark"], n["m"])}
            first = next((x for x in n["m"] if x[0] == op["type"]), None)
            return {**n, "m": rm.ref_remove(first, n["m"]) if first else n["m"]}

        return _replace_node_at(rs, doc, 0, op["pos"], fn)
    if k == "set_node_attribute":
        def fn2(n: dict) -> dict:
            return {**n, "a": rs.compute_attrs("node", n["t"], {**n["a"], op["attr"]: copy.deepcopy(op["value"])})}

        return _replace_node_at(rs, doc, 0, op["pos"], fn2)
    if k == "set_doc_attribute":
        return {**doc, "a": rs.compute_attrs("node", doc["t"], {**doc["a"], op["attr"]: copy.deepcopy(op["value"])})}
    if k == "set_node_markup":
        target = RR.node_at(RR.N(doc, rs), op["pos"])
        if target is not None and rs.leaf[target["t"]] and (op["type"] or target["t"]) != target["t"]:
            return ("reject-ok",)  # a leaf is re-inserted through the fitter: only validity is claimed

        def fn3(n: dict) -> dict:
            t = op["type"] or n["t"]
            ms = n["m"] if not op.get("marks") else rm.sorted_by_rank(rs, op["marks"])
            return {**n, "t": t, "a": rs.compute_attrs("node", t, op["attrs"]), "m": ms}

        return _replace_node_at(rs, doc, 0, op["pos"], fn3)
    if k == "set_block_type":
        t = op["type"]
        if not rs.textblock.get(t):
            return ("must-reject",)
        attrs = rs.compute_attrs("node", t, op["attrs"])
        if not _is_star_choice(rs, t):
            return None
        return _set_block_type(rs, doc, op["from"], op["to"], t, attrs)
    return None


def _subseq(a: list, b: list) -> bool:
    it = iter(b)
    return all(any(x == y for y in it) for x in a)


def _subseq_mod_fillers(a: list, b: list, fillers: set) -> bool:
    """a is an in-order subsequence of b after deleting some filler tokens from a (decided by DP)."""
    import functools

    @functools.lru_cache(maxsize=None)
    def go_(i: int, j: int) -> bool:
        if i == len(a):
            return True
        if a[i] in fillers and go_(i + 1, j):
            return True
        for k in range(j, len(b)):
            if b[k] == a[i]:
                return go_(i + 1, k + 1)
        return False

    return go_(0, 0)


def check(case: dict, ctx: Ctx) -> None:
    from prosemirror.transform import Transform

    if not schemas.in_domain(case["schema"]):
        ctx.label("skipped:schema-not-well-founded")
        return
    lib, rs = schemas.get(case["schema"])
    doc_p = case["doc"]
    op = case["op"]
    k = op["op"]
    doc = P.build(lib, doc_p)
    tr = Transform(doc)
    sk = case["schema"] if isinstance(case["schema"], str) else "random"
    if k not in KINDS:
        ctx.label("skipped:other-op")
        return
    ctx.label("op:" + k)
    if k == "set_node_markup":
        target = RR.node_at(RR.N(doc_p, rs), op["pos"])
        if target is not None and rs.leaf[target["t"]] and not rs.leaf[op["type"] or target["t"]]:
            ctx.label("skipped:leaf-to-container-markup")  # the replacement node (an empty container) is not a valid payload
            return
    try:
        if k in ("add_mark", "remove_mark"):
            from ..ref import splice as S

            T_ = P.tokens_of(doc_p["c"], rs.leaf_types)
            if S.splits_pair_at(T_, op["from"]) or S.splits_pair_at(T_, op["to"]):
                raise MidSurrogate
        exp = expected(rs, doc_p, op)
    except MidSurrogate:
        ctx.label("mid-surrogate")
        call(k, go.apply_op, tr, lib, op)  # may raise ValueError; must not crash internally
        return
    except ValueError:
        exp = ("reject-ok",)  # e.g. required attribute missing for the new type
    o = call(k, go.apply_op, tr, lib, op)
    if exp == ("must-reject",):
        require(not o.ok, "set_block_type:non-textblock-accepted", f"set_block_type to {op['type']} did not raise")
        return
    if not o.ok and k in ("add_mark", "remove_mark") and _count_sensitive_inline(rs, doc_p, op["from"], op["to"]):
        # a textblock whose content expression COUNTS inline nodes (`inline{0,2}`, `iatom text{0,2}`): a mark step
        # over part of a text node splits it in two, and the intermediate document can be invalid although the final
        # one is not.  Text nodes split and merge freely by design; such expressions are outside the domain.
        ctx.label("rejected:textblock-counts-its-inline-children")
        return
    if not o.ok:
        if k in ("add_mark", "remove_mark") and isinstance(exp, dict) and not V.node_problems(rs, exp):
            require(False, f"{k}:rejected", f"{k}({op.get('from')},{op.get('to')},{op.get('mark') or op.get('type')}) raised {o.exc!r}")
        ctx.label("rejected:" + k)
        return
    got = P.plain(tr.doc)
    probs = V.node_problems(rs, got)
    require(not probs, f"{k}:invalid-result", f"{k} produced an invalid document: {probs[:1]}")
    if exp is None or exp == ("reject-ok",):
        if k == "set_block_type":
            # weak clause: children kept in order (subsequence of leaf/char tokens, ignoring marks)
            t0 = [P.strip_marks(t) for t in P.leafseq(P.tokens_of(doc_p["c"], rs.leaf_types))]
            t1 = [P.strip_marks(t) for t in P.leafseq(P.tokens_of(got["c"], rs.leaf_types))]
            fillers = {("leaf", n, P.jkey(rs.default_attrs("node", n))) for n in rs.node_names if rs.leaf[n] and n != "text" and rs.generatable[n]}
            require(_subseq_mod_fillers(t1, t0, fillers), "set_block_type:invented-content", "result leaf sequence (minus schema-required fillers) is not a subsequence of the original")
            ctx.label("set_block_type:weak")
        elif exp is None:
            # address did not name a node: nothing may have changed
            require(got == doc_p, f"{k}:changed-without-target", f"{k} at {op.get('pos')} names no node but the document changed")
        return
    if k == "set_node_markup" and isinstance(exp, dict):
        # the operation validates content for the new type itself; if the reference tree is invalid a refusal was due
        if V.node_problems(rs, exp):
            ctx.label("set_node_markup:would-be-invalid")
            T0 = P.tokens_of(doc_p["c"], rs.leaf_types)
            pos = op["pos"]
            if 0 <= pos < len(T0) and T0[pos][0] == "leaf":
                # a leaf is re-inserted through the replace fitter, which may adapt it to its parent (drop marks the
                # parent does not allow); the statement then only demands that nothing but the addressed node changed
                T1 = P.tokens_of(got["c"], rs.leaf_types)
                require(
                    len(T1) == len(T0) and T1[:pos] == T0[:pos] and T1[pos + 1 :] == T0[pos + 1 :] and T1[pos][:2] == ("leaf", op["type"] or T0[pos][1]),
                    "set_node_markup:changed-elsewhere",
                    f"set_node_markup on the leaf at {pos} changed more than that node: {got['c']}",
                )
                ctx.label("set_node_markup:leaf-adapted-by-fitter")
                return
            require(False, "set_node_markup:accepted-invalid", f"set_node_markup accepted a change that yields {V.node_problems(rs, exp)[:1]}")
    if got != exp and k in ("add_mark", "remove_mark"):
        import itertools

        cut = _cut_containers(rs, doc_p, op["from"], op["to"])[:4]
        subsets = [set(c) for r in range(len(cut) + 1) for c in itertools.combinations(cut, r)]
        for sub_ in subsets[1:]:
            alt = expected(rs, doc_p, op, inside=sub_)
            if got == alt:
                ctx.label("inline-container:cut-by-range-counts-as-inside")
                exp = alt
                break
        if got != exp and k == "add_mark":
            for sub_ in subsets:
                bare = expected(rs, doc_p, op, inside=sub_, displace_only=True)
                if got == bare:
                    # everything is as stated except that inline nodes WITH content inside the range did not get the mark
                    fail_unless_known(
                        ctx, ID, "add_mark:wrong-effect", {"mode": "c13", "schema": case["schema"], "doc": doc_p, "op": op},
                        f"add_mark {op['from']}..{op['to']} {op['mark']}: an inline node with content inside the range does not carry the mark: got {got['c']}, expected {exp['c']}",
                    )
                    exp = bare
                    break
    require(got == exp, f"{k}:wrong-effect", f"{k} {({x: y for x, y in op.items() if x != 'op'})}: got {got['c']}, expected {exp['c']}" if k != "set_doc_attribute" else f"doc attrs {got['a']} expected {exp['a']}")
    # structure tokens identical for mark operations
    if k in ("add_mark", "remove_mark", "add_node_mark", "remove_node_mark"):
        s0 = [P.strip_marks(t) for t in P.tokens_of(doc_p["c"], rs.leaf_types)]
        s1 = [P.strip_marks(t) for t in P.tokens_of(got["c"], rs.leaf_types)]
        require(s0 == s1, f"{k}:structure-changed", "text or structure changed")
    changed = got != doc_p
    if changed:
        ctx.label("changed:" + k)
    nt = changed
    if k in ("add_mark", "remove_mark"):
        T = P.tokens_of(doc_p["c"], rs.leaf_types)
        f, t_ = op["from"], op["to"]
        if 0 < f < len(T) and T[f - 1][0] == "char" and T[f][0] == "char":
            ctx.label("range:splits-text")
            nt = True
        if any(tok[0] in ("open", "close") for tok in T[f:t_]):
            ctx.label("range:crosses-block")
            nt = True
        if k == "add_mark":
            m = op["mark"]
            rdoc = RR.N(doc_p, rs)
            for p, s, par, _i in RR.nodes_between(rdoc, f, t_):
                if rs.inline[p["t"]]:
                    if not rs.allows_mark(par["t"], m[0]):
                        ctx.label("add:parent-disallows")
                    else:
                        new = rm.ref_add(rs, m, p["m"])
                        if any(not rm.in_set(x, new) for x in p["m"]):
                            ctx.label("add:displaces")
                        elif not rm.in_set(m, new):
                            ctx.label("add:refused")
    if nt:
        ctx.nontrivial([sk, doc_p, op])
