"""C02 — replacing a range is exactly a splice of the flat token sequence.

(i)  Node.slice / Fragment.cut / Node.cut return exactly the tokens of the range with the right open depths.
(ii) Node.replace(from, to, slice) == tree(old[:from] + inner(slice) + old[to:]) with seam joins by the
     documented compatibility rule, or raises ReplaceError exactly when that splice is not a well-formed,
     schema-valid tree.
(iii) re-inserting a slice where it was cut gives back an equal document.
"""
from __future__ import annotations

from ..core import Ctx, call, require
from ..draw import Draw
from ..gen import schemas
from ..gen.docs import docgen
from ..ref import plain as P
from ..ref import rx
from ..ref import splice as S

ID = "C02"
RULE = (
    "schema from the zoo or a random well-founded schema; valid document; from <= to drawn so that about half of the pairs are "
    "depth-compatible with the slice; slice = reference cut of [sa,sb) from the same or another generated document (all open-depth "
    "combinations that occur), plus the cut-and-reinsert case. Non-trivial = a replace that succeeded with an open slice, or with a "
    "range crossing a node boundary, or merging text at a seam, or a join of differently typed nodes; or a refusal for which the "
    "reference names the reason. Distinct by (schema, document, range, slice)."
)
ASSUMPTIONS = [
    "mid-surrogate policy (DESIGN.md §3.1): a cut/replace at a position that splits a surrogate pair may raise a ValueError-family "
    "exception but must not return a wrong tree",
    "the slice payload is cut from a valid document, so nodes away from the seams are valid",
]
LEVEL_TEXT = (
    "Generated-input search with a complete token-level reference: for every generated (document, range, slice) the expected "
    "outcome - the exact resulting tree or the refusal - is computed from flat tokens and the schema spec and compared with "
    "Node.replace / Node.slice / cut in both directions (returns when it must, raises ReplaceError when it must). Sampling."
)
LEVEL_NOTE = "Trusted: pmverif/ref/splice.py + ref/validate.py (token splice, seam joins by the documented compatibility rule, reference validity)."
TECHNIQUE = "property-based testing (Hypothesis) against a token-splice reference model with two-sided accept/reject oracle"
BUDGET = {
    "quick": {"shards": 8, "examples": 1500},
    "thorough": {"shards": 16, "examples": 30000},
}
FLOORS = {"replace:ok:open-slice": (500, 10000), "replace:ok:crosses-boundary": (300, 6000), "replace:refused": (1000, 20000)}

ZOO_NAMES = schemas.GROUP_V + schemas.GROUP_X + schemas.MARK_VARIANTS


def pick_range(R: Draw, depths: list[int], want: int | None = None, frm: int | None = None, span: int = 12) -> tuple[int, int]:
    n = len(depths) - 1
    if frm is None:
        frm = R.int(0, n)
    if want is not None and R.bool(0.7):
        cands = [p for p in range(frm, min(n, frm + span) + 1) if depths[p] == want]
        if cands:
            return frm, R.choice(cands)
    return frm, R.int(frm, min(n, frm + R.int(0, span)))


def generate(R: Draw, tier: str) -> dict:
    sref = schemas.pick_schema(R, ZOO_NAMES, p_random=0.3)
    lib, rs = schemas.get(sref)
    g = docgen(rs)
    doc = g.doc(R, R.weighted([("tiny", 1), ("small", 5), ("medium", 3)]))
    focus = None
    if rs.mark_names and R.bool(0.15):
        # neighbouring text pieces whose marks have the same types and different attributes (link a | link b): a
        # deletion or open replace that brings such pieces side by side must keep them apart
        from .c13 import _removal_focus

        f = _removal_focus(R, g, rs, doc)
        if f is not None:
            doc, focus = f
    T = P.tokens_of(doc["c"], rs.leaf_types)
    dd = S.depth_table(T)
    kind = R.weighted([("other", 6), ("same", 2), ("reinsert", 2)])
    if focus is None and R.bool(0.16):
        # a closed inline slice dropped INSIDE a text node (both halves of the split text stay): what is valid depends
        # on the whole resulting child sequence, text merging included
        mids = [p for p in range(1, len(T)) if T[p - 1][0] == "char" and T[p][0] == "char"]
        # prefer text inside parents whose inline content is sensitive to order or count (more than one match state)
        from ..ref import resolve as RR

        picky = []
        for k_, s_, _par, _i, _d in RR.all_nodes(RR.N(doc, rs)):
            if not k_.is_text and rs.inline_content.get(k_.t) and len(rx.states(rs.content[k_.t], limit=8)) > 1:
                picky += [p for p in mids if s_ < p < s_ + k_.size]
        if picky and R.bool(0.7):
            mids = picky
        src2 = g.doc(R, "small")
        TS2 = P.tokens_of(src2["c"], rs.leaf_types)
        inl = [p for p in range(len(TS2)) if TS2[p][0] in ("char", "leaf") and rs.inline.get(TS2[p][1] if TS2[p][0] == "leaf" else "text")]
        if mids and inl:
            a = R.choice(mids)
            sa = R.choice(inl)
            sb = sa + 1
            while sb < len(TS2) and R.bool(0.4) and TS2[sb][0] in ("char", "leaf") and S.depth_table(TS2)[sb] == S.depth_table(TS2)[sa]:
                sb += 1
            return {"schema": sref, "doc": doc, "src": src2, "from": a, "to": a if R.bool(0.7) else min(len(T), a + 1), "sa": sa, "sb": sb}
    if focus is not None and R.bool(0.7):
        # delete (or re-insert an empty cut over) a stretch inside the focus range, seams inside the marked pieces
        a = R.int(focus["from"], focus["to"])
        b = R.int(a, min(focus["to"], a + R.int(0, 3)))
        sa = R.int(0, len(T))
        return {"schema": sref, "doc": doc, "src": None, "from": a, "to": b, "sa": sa, "sb": sa}
    if kind == "reinsert":
        frm, to = pick_range(R, dd)
        return {"schema": sref, "doc": doc, "src": None, "from": frm, "to": to, "sa": frm, "sb": to}
    src = doc if kind == "same" else g.doc(R, "small")
    TS = T if kind == "same" else P.tokens_of(src["c"], rs.leaf_types)
    ds = S.depth_table(TS)
    sa, sb = pick_range(R, ds, span=10)
    # open depths of the slice, to steer `to`
    st_a, st_b = S.open_stack(TS, sa), S.open_stack(TS, sb)
    d = 0
    while d < len(st_a) and d < len(st_b) and st_a[d] == st_b[d]:
        d += 1
    os_, oe = len(st_a) - d, len(st_b) - d
    frm = R.int(0, len(T))
    if R.bool(0.6):
        # prefer a start whose depth can host the slice's open start
        cands = [p for p in range(len(dd)) if dd[p] >= os_]
        if cands:
            frm = R.choice(cands)
    frm, to = pick_range(R, dd, want=dd[frm] - os_ + oe, frm=frm)
    return {"schema": sref, "doc": doc, "src": None if kind == "same" else src, "from": frm, "to": to, "sa": sa, "sb": sb}


def check(case: dict, ctx: Ctx) -> None:
    from prosemirror.model import ReplaceError

    lib, rs = schemas.get(case["schema"])
    lt = rs.leaf_types
    doc_p = case["doc"]
    src_p = case["src"] or doc_p
    doc = P.build(lib, doc_p)
    src = doc if case["src"] is None else P.build(lib, src_p)
    T = P.tokens_of(doc_p["c"], lt)
    TS = P.tokens_of(src_p["c"], lt)
    frm, to, sa, sb = case["from"], case["to"], case["sa"], case["sb"]

    # ---- (i) slicing
    for inc in (False, True):
        exp = S.ref_slice(TS, sa, sb, include_parents=inc)
        o = call("slice", src.slice, sa, sb, inc)
        if exp is None:
            ctx.label("slice:mid-surrogate")
            if o.ok:
                require(o.value.size == sb - sa, "slice:mid-surrogate-size", f"slice({sa},{sb}) size {o.value.size}")
            continue
        require(o.ok, "slice:raised", f"slice({sa},{sb},{inc}) raised {o.exc!r}")
        got = P.plain_slice(o.value)
        require(
            got == exp,
            "slice:wrong",
            f"slice({sa},{sb},include_parents={inc}) = {got}, tokens say {exp}",
        )
        require(o.value.size == sb - sa, "slice:size", f"slice({sa},{sb}).size = {o.value.size}")
        require(o.value.content.size == len(P.tokens_of(exp["c"], lt)), "slice:content-size", f"slice({sa},{sb}) content.size")
    # Fragment.cut on the document content == include_parents slice content
    exp_cut = S.ref_slice(TS, sa, sb, include_parents=True)
    o = call("cut", src.content.cut, sa, sb)
    if exp_cut is not None:
        require(o.ok, "cut:raised", f"content.cut({sa},{sb}) raised {o.exc!r}")
        require(P.plain_fragment(o.value) == exp_cut["c"], "cut:wrong", f"content.cut({sa},{sb}) = {P.plain_fragment(o.value)}, tokens say {exp_cut['c']}")
        require(o.value.size == len(P.tokens_of(exp_cut["c"], lt)), "cut:size", f"content.cut({sa},{sb}).size = {o.value.size}")
        o2 = call("cut", src.cut, sa, sb)
        require(o2.ok and P.plain(o2.value)["c"] == exp_cut["c"], "cut:node-cut-wrong", f"Node.cut({sa},{sb})")

    # ---- (ii) replacing
    sl_p = S.ref_slice(TS, sa, sb)
    if sl_p is None:
        ctx.label("slice:mid-surrogate-skip-replace")
        return
    sl = P.build_slice(lib, sl_p)
    key = [case["schema"] if isinstance(case["schema"], str) else "random", doc_p, frm, to, sl_p]
    try:
        exp_doc = S.ref_replace(rs, doc_p, frm, to, sl_p)
        reason = None
    except S.RefReplaceError as e:
        exp_doc = None
        reason = e.reason
    o = call("replace", doc.replace, frm, to, sl)
    if reason == "mid-surrogate":
        ctx.label("replace:mid-surrogate")
        if o.ok:
            want = len(T) + S.slice_size(sl_p, lt) - (to - frm)
            require(o.value.content.size == want, "replace:mid-surrogate-size", f"size {o.value.content.size}, expected {want}")
        return
    if exp_doc is None:
        require(
            not o.ok,
            "replace:returned-invalid",
            f"replace({frm},{to},{sl_p}) returned {P.plain(o.value)['c'] if o.ok else None}; reference refuses: {reason}",
        )
        require(isinstance(o.exc, ReplaceError), "replace:wrong-error", f"raised {o.exc!r} instead of ReplaceError ({reason})")
        ctx.label("replace:refused")
        ctx.label("refused:" + reason.split(":")[0].split(" ")[0])
        ctx.nontrivial(key)
        return
    joins = exp_doc.pop("_joins")
    require(o.ok, "replace:refused-valid", f"replace({frm},{to},{sl_p}) raised {o.exc!r}; the token splice is a valid tree")
    got = P.plain(o.value)
    require(got == exp_doc, "replace:wrong-tree", f"replace({frm},{to},{sl_p}): got {got['c']}, splice says {exp_doc['c']}")
    want = len(T) + S.slice_size(sl_p, lt) - (to - frm)
    require(o.value.content.size == want, "replace:size", f"size {o.value.content.size}, expected {want}")
    require(len(P.tokens_of(got["c"], lt)) == want, "replace:token-count", "token count")
    ctx.label("replace:ok")
    nt = False
    if sl_p["os"] or sl_p["oe"]:
        ctx.label("replace:ok:open-slice")
        nt = True
    dd = S.depth_table(T)
    if to > frm and (min(dd[frm : to + 1]) < dd[frm] or dd[frm] != dd[to]):
        ctx.label("replace:ok:crosses-boundary")
        nt = True
    if joins:
        ctx.label("replace:ok:typed-join")
        nt = True
    if (frm > 0 and T[frm - 1][0] == "char") or (to < len(T) and T[to][0] == "char"):
        inner = S.slice_inner_tokens(sl_p, lt)
        if inner and (inner[0][0] == "char" or inner[-1][0] == "char"):
            ctx.label("replace:ok:text-seam")
            nt = True
    if nt:
        ctx.nontrivial(key)
    # ---- (iii) cut and re-insert
    if case["src"] is None and sa == frm and sb == to:
        require(got == doc_p, "reinsert:not-identity", f"doc.replace({frm},{to},doc.slice({frm},{to})) differs from doc")
        eq = call("eq", o.value.eq, doc)
        require(eq.ok and eq.value is True, "reinsert:eq-false", "Node.eq says re-inserted document differs")
        ctx.label("reinsert")
