"""C08 — position maps and mappings obey the documented mapping algebra.

Exhaustive: all step maps with <= 3 ranges, first start/gaps in {0,1,2}, old/new sizes in {0,1,2},
both `inverted` flags, every position 0..end+2, both association sides.
Random: larger maps; mappings composed by append_map / append_mapping / append_mapping_inverted /
invert / slice / copy with rebasing-style mirror registrations.
Oracle: ref.stepmap (documented rule, token reading of the deletion flags).
"""
from __future__ import annotations

import itertools

from ..core import Ctx, call, fail_unless_known, require
from ..draw import Draw
from ..ref.stepmap import RefMap, RefMapping

ID = "C08"
RULE = (
    "exhaustive: every step map with 1..3 ranges, start/gaps in {0,1,2} (0 = adjacent ranges), old/new sizes in {0,1,2}, "
    "stored both plain and inverted, every position 0..end+2, assoc -1 and +1; random: maps with up to 6 ranges and "
    "sizes up to 9, and mappings built from them by append_map/append_mapping/append_mapping_inverted/invert/slice/copy "
    "with mirror pairs registered the way rebasing does. Non-trivial = a position inside or at the edge of a range, or a "
    "mapping in which a mirror jump (recover path) is taken; distinct by (map, position, side) resp. (mapping, position, side)."
)
ASSUMPTIONS = [
    "with two ranges touching at a position the first containing range decides (upstream behaviour, DESIGN.md §3.6)",
    "deletion flags are compared with the token reading only for ranges with old size > 0 on maps without adjacent ranges; "
    "for pure insertions only deleted == False is asserted",
]
LEVEL_TEXT = (
    "Complete enumeration of all position maps inside the stated bound (about 20 000 maps x 2 orientations x all positions x "
    "both sides) against a reference written from the documented mapping rule, plus randomly composed mappings with mirror "
    "registrations against a reference composition. Exhaustive inside the bound, sampled beyond it."
)
LEVEL_NOTE = "Trusted: pmverif/ref/stepmap.py as the reading of the documented rule; bound: 3 ranges, sizes and gaps <= 2."
TECHNIQUE = "exhaustive enumeration (itertools.product over ranges, sharded) + Hypothesis-composed mappings vs reference map arithmetic"
BUDGET = {
    "quick": {"shards": 6, "examples": 1200},
    "thorough": {"shards": 12, "examples": 25000},
}
EXHAUSTIVE_BOUND = {
    "quick": "all maps with <=3 ranges, start/gap/old/new in {0,1,2}, both orientations, positions 0..end+2, both sides",
    "thorough": "as quick, plus all maps with <=2 ranges with start/gap/old/new in {0..3}",
}


def _maps(nranges: int, vals: tuple) -> "itertools.product":
    return itertools.product(*([vals, vals, vals] * nranges))


def exhaustive_shards(tier: str) -> list:
    n = 16
    out = [{"nr": nr, "vals": [0, 1, 2], "mod": n, "rem": r} for nr in (1, 2, 3) for r in range(n) if nr == 3 or r == 0]
    if tier == "thorough":
        out += [{"nr": 2, "vals": [0, 1, 2, 3], "mod": n, "rem": r} for r in range(n)]
    return out


def exhaustive_cases(desc: dict, tier: str):  # noqa: ANN201
    nr, vals = desc["nr"], tuple(desc["vals"])
    for k, combo in enumerate(_maps(nr, vals)):
        if nr == 3 or len(vals) == 4:
            if k % desc["mod"] != desc["rem"]:
                continue
        # combo = (gap0, old0, new0, gap1, old1, new1, ...) -> stored ranges with absolute starts
        ranges = []
        pos = 0
        for i in range(nr):
            gap, o, n = combo[3 * i : 3 * i + 3]
            start = pos + gap
            ranges += [start, o, n]
            pos = start + o
        for inv in (False, True):
            yield {"mode": "map", "ranges": ranges, "inverted": inv}


def _stored_valid_for_inverted(ranges: list[int]) -> list[int]:
    return ranges


def generate(R: Draw, tier: str) -> dict:
    def rand_ranges(maxr: int, maxv: int) -> list[int]:
        out = []
        pos = 0
        for _ in range(R.int(0, maxr)):
            start = pos + R.weighted([(0, 3), (1, 3), (2, 2), (R.int(3, 9), 2)])
            o = R.int(0, maxv)
            n = R.int(0, maxv)
            out += [start, o, n]
            pos = start + o
        return out

    if R.bool(0.25):
        return {"mode": "map", "ranges": rand_ranges(6, 9), "inverted": R.bool()}
    if R.bool(0.25):
        return {"mode": "law", "history": [rand_ranges(3, 3) for _ in range(R.int(1, 4))], "undo_first": R.bool(0.3)}
    # a mapping program: list of construction steps
    prog = []
    nmaps = 0
    for _ in range(R.int(1, 5)):
        k = R.weighted([("map", 4), ("pair", 4), ("history", 3), ("append_mapping", 2), ("append_inverted", 2), ("invert", 1), ("copy", 1)])
        if k == "map":
            prog.append(["map", rand_ranges(3, 4), R.bool(0.3)])
        elif k == "pair":
            # M then (later) its inverse registered as mirror, optional foreign maps in between
            between = [[rand_ranges(2, 3), False] for _ in range(R.weighted([(0, 5), (1, 3), (2, 1)]))]
            prog.append(["pair", rand_ranges(3, 4), R.bool(0.3), between, R.bool(0.3)])
        elif k == "history":
            hist = [rand_ranges(2, 3) for _ in range(R.int(1, 3))]
            prog.append(["history", hist])
        elif k == "append_mapping":
            prog.append(["append_mapping", [[rand_ranges(2, 3), R.bool(0.2)] for _ in range(R.int(0, 3))], R.bool(0.5)])
        elif k == "append_inverted":
            prog.append(["append_inverted", [[rand_ranges(2, 3), R.bool(0.2)] for _ in range(R.int(0, 3))], R.bool(0.5)])
        else:
            prog.append([k])
        nmaps += 1
    return {"mode": "mapping", "prog": prog, "slice": [R.int(0, 3), R.int(0, 8)] if R.bool(0.3) else None, "interleave": R.bool(0.5)}


# ------------------------------------------------------------------ oracle for one map


def check_map(case: dict, ctx: Ctx) -> None:
    from prosemirror.transform import StepMap

    ranges, inverted = case["ranges"], case["inverted"]
    lib = StepMap(list(ranges), inverted)
    ref = RefMap.from_stored(ranges, inverted)
    lib_inv = call("invert", lib.invert)
    require(lib_inv.ok, "invert:raised", repr(lib_inv.exc))
    ref_inv = ref.inverse()
    adj = ref.adjacent()
    top = ref.max_pos() + 2
    key = [ranges, inverted]
    prev = {-1: -1, 1: -1}
    # for_each
    seen: list = []
    o = call("for_each", lib.for_each, lambda a, b, c, d: seen.append((a, b, c, d)))
    require(o.ok, "for_each:raised", repr(o.exc))
    require(seen == ref.for_each(), "for_each:wrong", f"{lib} for_each -> {seen}, reference {ref.for_each()}")
    n_eval = 0
    for pos in range(top + 1):
        lo = hi = None
        for assoc in (-1, 1):
            n_eval += 1
            exp = ref.result(pos, assoc)
            o = call("map", lib.map, pos, assoc)
            require(o.ok, "map:raised", f"{lib}.map({pos},{assoc}): {o.exc!r}")
            require(o.value == exp.pos, "map:wrong", f"{lib}.map({pos},{assoc}) = {o.value}, reference {exp.pos}")
            r = call("map_result", lib.map_result, pos, assoc)
            require(r.ok, "map_result:raised", f"{lib}.map_result({pos},{assoc}): {r.exc!r}")
            mr = r.value
            require(mr.pos == exp.pos, "map_result:pos", f"{lib}.map_result({pos},{assoc}).pos = {mr.pos}, reference {exp.pos}")
            require(exp.pos >= prev[assoc], "map:not-monotone", f"{lib} pos {pos} assoc {assoc}")
            prev[assoc] = exp.pos
            if assoc < 0:
                lo = mr.pos
            else:
                hi = mr.pos
            # deletion flags
            if exp.in_range is None:
                require(
                    not (mr.deleted or mr.deleted_before or mr.deleted_after or mr.deleted_across),
                    "flags:outside-range",
                    f"{lib}.map_result({pos},{assoc}) reports deletion outside every range",
                )
            elif exp.insertion:
                require(not mr.deleted, "flags:insertion-deleted", f"{lib}.map_result({pos},{assoc}).deleted at a pure insertion")
            elif not adj:
                got = (mr.deleted, mr.deleted_before, mr.deleted_after, mr.deleted_across)
                want = (exp.deleted, exp.deleted_before, exp.deleted_after, exp.deleted_across)
                require(got == want, "flags:wrong", f"{lib}.map_result({pos},{assoc}) flags {got}, token reading {want}")
            # recover
            if exp.in_range is None:
                require(mr.recover is None, "recover:outside-range", f"{lib} pos {pos}")
            else:
                require(
                    (mr.recover is None) == (exp.recover is None),
                    "recover:none-mismatch",
                    f"{lib}.map_result({pos},{assoc}).recover={mr.recover}, reference {exp.recover}",
                )
                if mr.recover is not None:
                    back = call("recover", lib_inv.value.recover, mr.recover)
                    require(back.ok, "recover:raised", repr(back.exc))
                    require(
                        back.value == pos,
                        "recover:roundtrip",
                        f"{lib}: inverse.recover(recover of {pos},{assoc}) = {back.value}",
                    )
                    idx = exp.recover[0]
                    t = call("touches", lib.touches, pos, mr.recover)
                    require(t.ok and t.value is True, "touches:wrong", f"{lib}.touches({pos}, recover idx {idx}) = {t.value if t.ok else t.exc!r}, expected True")
                    for other in range(len(ref.triples)):
                        if other != idx:
                            fake = other + (mr.recover - (mr.recover & 0xFFFF))
                            t = call("touches", lib.touches, pos, fake)
                            require(
                                t.ok and bool(t.value) == ref.touches(pos, other),
                                "touches:wrong",
                                f"{lib}.touches({pos}, idx {other}) = {t.value if t.ok else t.exc!r}, reference {ref.touches(pos, other)}",
                            )
            # double inversion behaves as the original
            ii = call("invert2", lambda: lib_inv.value.invert().map(pos, assoc))
            require(ii.ok and ii.value == exp.pos, "invert-invert:wrong", f"{lib} pos {pos} assoc {assoc}")
            # inverse map agrees with the reference inverse
            iv = call("inverse-map", lib_inv.value.map, pos, assoc)
            require(iv.ok and iv.value == ref_inv.map(pos, assoc), "inverse:wrong", f"{lib}.invert().map({pos},{assoc}) = {iv.value if iv.ok else iv.exc!r}, reference {ref_inv.map(pos, assoc)}")
            if exp.in_range is not None:
                ctx.nontrivial([key, pos, assoc])
        require(lo <= hi, "map:side-order", f"{lib} pos {pos}: map(-1)={lo} > map(+1)={hi}")
    # mirror law on this map: M then its inverse (and the other way round), registered as mirrors
    from prosemirror.transform import Mapping

    for first, second, tag, limit in (
        (lib, lib_inv.value, "M,I", top),
        (lib_inv.value, lib, "I,M", ref_inv.max_pos() + 2),
    ):
        mp = Mapping([first, second], [0, 1])
        for pos in range(limit + 1):
            for assoc in (-1, 1):
                n_eval += 1
                o = call("mirror", mp.map, pos, assoc)
                require(o.ok, "mirror:raised", f"Mapping([{tag}]) of {lib} pos {pos}: {o.exc!r}")
                if o.value != pos:
                    fail_unless_known(
                        ctx,
                        ID,
                        "mirror:law",
                        {"mode": "mirror", "ranges": ranges, "inverted": inverted, "order": tag, "pos": pos, "assoc": assoc},
                        f"Mapping([{tag}], mirror 0<->1) of {lib}: map({pos},{assoc}) = {o.value}",
                    )
    if adj:
        ctx.label("map:adjacent-ranges")
    ctx.label(f"map:{len(ref.triples)}-ranges" + (":inverted" if inverted else ""))
    ctx.evaluations += n_eval - 1


# ------------------------------------------------------------------ mappings


def check_mapping(case: dict, ctx: Ctx) -> None:
    from prosemirror.transform import Mapping, StepMap

    lib = Mapping()
    ref_maps: list[RefMap] = []
    mirror: dict[int, int] = {}

    def mk(ranges: list[int], inv: bool) -> tuple:
        return StepMap(list(ranges), inv), RefMap.from_stored(ranges, inv)

    def probe(tag: str) -> None:
        """Queries on the mapping as built so far (a mapping is queried while it is still growing: every rebased
        step maps through it before the next map is appended)."""
        for a in range(len(ref_maps)):
            g = call("get_mirror", lib.get_mirror, a)
            require(g.ok and g.value == mirror.get(a), "mapping:mirror", f"{tag}: get_mirror({a}) = {g.value if g.ok else g.exc!r}, reference {mirror.get(a)}")
        ref_now = RefMapping(ref_maps, mirror)
        top_now = max([r.max_pos() for r in ref_maps] + [0]) + 2
        for pos in range(top_now + 1):
            for assoc in (-1, 1):
                exp, _d = ref_now.map(pos, assoc, 0, len(ref_maps))
                o = call("Mapping.map", lib.map, pos, assoc)
                require(o.ok and o.value == exp, "Mapping.map:wrong", f"{tag}: map({pos},{assoc}) = {o.value if o.ok else o.exc!r}, reference {exp}")

    for si, step in enumerate(case["prog"]):
        if case.get("interleave") and si:
            probe(f"after {si} of {len(case['prog'])} construction steps")
            ctx.label("mapping:queried-while-growing")
        k = step[0]
        if k == "map":
            lm, rm_ = mk(step[1], step[2])
            o = call("append_map", lib.append_map, lm)
            require(o.ok, "append_map:raised", repr(o.exc))
            ref_maps.append(rm_)
        elif k == "pair":
            lm, rm_ = mk(step[1], step[2])
            call("append_map", lib.append_map, lm)
            i0 = len(ref_maps)
            ref_maps.append(rm_)
            for rng, inv in step[3]:
                lm2, rm2 = mk(rng, inv)
                call("append_map", lib.append_map, lm2)
                ref_maps.append(rm2)
            o = call("append_map", lib.append_map, lm.invert(), i0)
            require(o.ok, "append_map:raised", repr(o.exc))
            mirror[i0] = len(ref_maps)
            mirror[len(ref_maps)] = i0
            ref_maps.append(rm_.inverse())
        elif k == "history":
            # own history H, then undo it: maps H1..Hn, Hn^-1..H1^-1 with mirrors, built through append_mapping_inverted
            h = Mapping()
            refs = []
            for rng in step[1]:
                lm, rm_ = mk(rng, False)
                h.append_map(lm)
                refs.append(rm_)
            base = len(ref_maps)
            o = call("append_mapping", lib.append_mapping, h)
            require(o.ok, "append_mapping:raised", repr(o.exc))
            ref_maps.extend(refs)
            n = len(refs)
            for j in range(n - 1, -1, -1):
                o = call("append_map", lib.append_map, h.maps[j].invert(), base + j)
                require(o.ok, "append_map:raised", repr(o.exc))
                mirror[base + j] = len(ref_maps)
                mirror[len(ref_maps)] = base + j
                ref_maps.append(refs[j].inverse())
        elif k in ("append_mapping", "append_inverted"):
            other = Mapping()
            refs = []
            for rng, inv in step[1]:
                lm, rm_ = mk(rng, inv)
                other.append_map(lm)
                refs.append(rm_)
            omirror: dict[int, int] = {}
            if step[2] and len(refs) >= 1:
                # give `other` an internal mirror pair: append the inverse of its first map
                other.append_map(other.maps[0].invert(), 0)
                omirror = {0: len(refs), len(refs): 0}
                refs.append(refs[0].inverse())
            base = len(ref_maps)
            if k == "append_mapping":
                o = call("append_mapping", lib.append_mapping, other)
                require(o.ok, "append_mapping:raised", repr(o.exc))
                ref_maps.extend(refs)
                for a, b in omirror.items():
                    mirror[base + a] = base + b
            else:
                o = call("append_mapping_inverted", lib.append_mapping_inverted, other)
                require(o.ok, "append_mapping_inverted:raised", repr(o.exc))
                n = len(refs)
                ref_maps.extend(r.inverse() for r in reversed(refs))
                for a, b in omirror.items():
                    mirror[base + (n - 1 - a)] = base + (n - 1 - b)
        elif k == "invert":
            o = call("Mapping.invert", lib.invert)
            require(o.ok, "Mapping.invert:raised", repr(o.exc))
            lib = o.value
            n = len(ref_maps)
            ref_maps = [r.inverse() for r in reversed(ref_maps)]
            mirror = {n - 1 - a: n - 1 - b for a, b in mirror.items()}
        elif k == "copy":
            o = call("Mapping.copy", lib.copy)
            require(o.ok, "Mapping.copy:raised", repr(o.exc))
            old = lib
            lib = o.value
            # appending to the copy must not touch the original
            n_before = len(old.maps)
            lib.append_map(StepMap([0, 0, 1]))
            require(len(old.maps) == n_before, "copy:aliases-original", "append to copy changed the original")
            ref_maps.append(RefMap([(0, 0, 1)]))
    require(len(lib.maps) == len(ref_maps), "mapping:length", f"{len(lib.maps)} maps, reference {len(ref_maps)}")
    for i, (lm, rm_) in enumerate(zip(lib.maps, ref_maps)):
        got = RefMap.from_stored(lm.ranges, lm.inverted)
        require(got.triples == rm_.triples, "mapping:maps", f"map {i} is {lm}, reference {rm_.triples}")
    for a in range(len(ref_maps)):
        g = call("get_mirror", lib.get_mirror, a)
        require(g.ok and g.value == mirror.get(a), "mapping:mirror", f"get_mirror({a}) = {g.value if g.ok else g.exc!r}, reference {mirror.get(a)}")
    ref = RefMapping(ref_maps, mirror)
    frm, to = 0, len(ref_maps)
    target = lib
    if case.get("slice"):
        frm = min(case["slice"][0], len(ref_maps))
        to = max(frm, min(case["slice"][1], len(ref_maps)))
        o = call("Mapping.slice", lib.slice, frm, to)
        require(o.ok, "Mapping.slice:raised", repr(o.exc))
        target = o.value
        ctx.label("mapping:sliced")
    top = max([r.max_pos() for r in ref_maps] + [0]) + 3
    jumps = 0
    for pos in range(top + 1):
        for assoc in (-1, 1):
            exp, exp_del = ref.map(pos, assoc, frm, to)
            o = call("Mapping.map", target.map, pos, assoc)
            require(o.ok, "Mapping.map:raised", f"pos {pos}: {o.exc!r}")
            require(o.value == exp, "Mapping.map:wrong", f"map({pos},{assoc}) = {o.value}, reference {exp}")
            r = call("Mapping.map_result", target.map_result, pos, assoc)
            require(r.ok and r.value.pos == exp, "Mapping.map_result:wrong", f"map_result({pos},{assoc}).pos = {r.value.pos if r.ok else r.exc!r}, reference {exp}")
            # was a mirror jump taken? (reference-side bookkeeping)
            plain, _ = RefMapping(ref_maps, {}).map(pos, assoc, frm, to)
            if plain != exp:
                jumps += 1
                ctx.nontrivial([case["prog"], case.get("slice"), pos, assoc])
    if mirror:
        ctx.label("mapping:with-mirrors")
    if jumps:
        ctx.label("mapping:mirror-jump-changes-result")
    ctx.label("mapping")
    ctx.evaluations += 2 * (top + 1) - 1


def check_law(case: dict, ctx: Ctx) -> None:
    """History H1..Hn followed by its inversion Hn^-1..H1^-1 (or the other way round), every map mirrored with
    its inverse: every position comes back to where it started."""
    from prosemirror.transform import Mapping, StepMap

    hist = [StepMap(list(r)) for r in case["history"]]
    refs = [RefMap.from_stored(r, False) for r in case["history"]]
    if case["undo_first"]:
        hist = [m.invert() for m in reversed(hist)]
        refs = [r.inverse() for r in reversed(refs)]
    n = len(hist)
    mp = Mapping()
    for m in hist:
        mp.append_map(m)
    for j in range(n - 1, -1, -1):
        mp.append_map(hist[j].invert(), j)
    seq = refs + [r.inverse() for r in reversed(refs)]
    top = (refs[0].max_pos() if refs else 0) + 3
    for pos in range(top + 1):
        for assoc in (-1, 1):
            o = call("mirror", mp.map, pos, assoc)
            require(o.ok, "mirror:raised", f"history {case['history']} pos {pos}: {o.exc!r}")
            if o.value != pos:
                fail_unless_known(
                    ctx,
                    ID,
                    "mirror:law-history",
                    {"mode": "mirror-history", "history": case["history"], "undo_first": case["undo_first"], "pos": pos, "assoc": assoc},
                    f"history {case['history']} (undo_first={case['undo_first']}) + mirrored inversion: map({pos},{assoc}) = {o.value}",
                )
            if any(r.result(pos, assoc).in_range is not None for r in seq[:1]):
                ctx.nontrivial([case["history"], case["undo_first"], pos, assoc])
    ctx.label(f"law-history:{n}")
    ctx.evaluations += 2 * (top + 1) - 1


def check(case: dict, ctx: Ctx) -> None:
    if case["mode"] == "map":
        check_map(case, ctx)
    elif case["mode"] == "law":
        check_law(case, ctx)
    else:
        check_mapping(case, ctx)
