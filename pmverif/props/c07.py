"""C07 — validity predicates agree exactly with the schema's definition of validity."""
from __future__ import annotations

import copy

from ..core import Ctx, call, require
from ..draw import Draw
from ..gen import mutate as mu
from ..gen import schemas
from ..gen.docs import docgen
from ..ref import marks as rm
from ..ref import plain as P
from ..ref import rx
from ..ref import validate as V

ID = "C07"
RULE = (
    "schema from the zoo or random; a node taken from a valid generated document; ALL child index ranges 0<=from<=to<=child count "
    "(nodes with <=6 children) x ALL sub-ranges start<=end of a replacement fragment taken from another generated node; candidate "
    "node types = every type of the schema; candidate mark sets; a second node for can_append; plus singly-mutated invalid copies "
    "(child inserted/deleted/retyped/duplicated, disallowed mark, permuted or duplicated mark list) for check()/valid_content/"
    "create_checked. Both verdicts must occur. Non-trivial = a predicate evaluation whose reference verdict is True on a non-empty "
    "replacement, or False; distinct by (predicate, node, arguments)."
)
ASSUMPTIONS = [
    "can_replace / can_replace_with are only asked about nodes whose own content is valid (their documented precondition)",
    "nothing is asserted about attribute values (the schema layer does not type them)",
]
LEVEL_TEXT = (
    "Generated nodes and fragments, exhaustive over index ranges and sub-ranges for each, every predicate compared with a reference "
    "validity definition computed from the schema spec (derivative-based content matching, allowed marks, canonical mark sets). Sampling "
    "over nodes, complete over ranges."
)
LEVEL_NOTE = "Trusted: pmverif/ref/validate.py, ref/rx.py, ref/marks.py as the schema's definition of validity."
TECHNIQUE = "property-based testing (Hypothesis) x exhaustive index ranges vs reference validity (regex derivatives + mark rules)"
BUDGET = {
    "quick": {"shards": 8, "examples": 500},
    "thorough": {"shards": 16, "examples": 10000},
}

ZOO_NAMES = schemas.GROUP_V + schemas.GROUP_X + schemas.MARK_VARIANTS


def _pick_node(R: Draw, doc: dict, want_kids: bool = True) -> dict:
    ps = mu.paths(doc)
    cands = [p for p in ps if (len(mu.get_at(doc, p)["c"]) > 0) == want_kids and mu.get_at(doc, p)["t"] != "text"]
    if not cands:
        return doc
    return mu.get_at(doc, R.choice(cands))


def _corrupt(R: Draw, g, rs, node: dict) -> dict:  # noqa: ANN001
    """A singly-mutated, usually invalid copy of node (validity is decided by the reference, not assumed)."""
    node = copy.deepcopy(node)
    k = R.weighted([("ins", 3), ("del", 3), ("retype", 2), ("badmark", 3), ("permute", 2), ("dupmark", 2), ("deep", 2)])
    kids = node["c"]
    if k == "deep" and kids:
        i = R.int(0, len(kids) - 1)
        if kids[i]["t"] != "text":
            kids[i] = _corrupt(R, g, rs, kids[i])
            return node
        k = "badmark"
    if k == "ins":
        t = R.choice([t for t in rs.node_names if t != rs.top])
        new = P.mk("text", {}, None, [], "q") if t == "text" else (g.node(R, t, 0, 0))
        kids.insert(R.int(0, len(kids)), new)
    elif k == "del" and kids:
        del kids[R.int(0, len(kids) - 1)]
    elif k == "retype" and kids:
        i = R.int(0, len(kids) - 1)
        t = R.choice([t for t in rs.node_names if t not in (rs.top, "text")])
        kids[i] = g.node(R, t, 0, 0)
    elif k in ("badmark", "permute", "dupmark") and rs.mark_names:
        targets = kids + [node]
        tgt = R.choice(targets)
        if k == "badmark":
            tgt["m"] = tgt["m"] + [g.mark(R, R.choice(rs.mark_names))]
        elif k == "permute" and len(tgt["m"]) >= 2:
            tgt["m"] = list(reversed(tgt["m"]))
        elif tgt["m"]:
            tgt["m"] = tgt["m"] + [copy.deepcopy(tgt["m"][0])]
        else:
            m = g.mark(R, R.choice(rs.mark_names))
            tgt["m"] = [m, copy.deepcopy(m)]
    node["c"] = mu.normalize_children(kids)
    return node


def generate(R: Draw, tier: str) -> dict:
    sref = schemas.pick_schema(R, ZOO_NAMES, p_random=0.35)
    lib, rs = schemas.get(sref)
    pre = None
    if R.bool(0.2):
        # judge a TWIN of the schema (same names, other group membership) that is built after the original in the
        # same process
        twin = schemas.twin_spec(R, schemas.spec_of(sref))
        if twin is not None:
            pre, sref = sref, twin
            lib, rs = schemas.get(sref)
    g = docgen(rs)
    doc = g.doc(R, "small")
    node = _pick_node(R, doc, want_kids=R.bool(0.85))
    if len(node["c"]) > 6:
        node = {**node, "c": node["c"][:0]} if False else node
    src = g.doc(R, "small")
    repl_node = _pick_node(R, src, True)
    repl = repl_node["c"][: R.int(0, 4)]
    if R.bool(0.3):
        # same parent type: replacement that often fits
        repl = copy.deepcopy(node["c"][: R.int(0, 3)])
    other = _pick_node(R, g.doc(R, "tiny"), want_kids=R.bool(0.6))
    marks = g.mark_set(R, R.choice(rs.node_names), 0.7) if rs.mark_names else []
    if rs.mark_names and R.bool(0.3):
        marks = [g.mark(R, R.choice(rs.mark_names))]
    bad = _corrupt(R, g, rs, node if R.bool(0.7) else doc)
    return {"schema": sref, "pre": pre, "node": node, "repl": repl, "other": other, "marks": marks, "bad": bad}


def _types(children: list) -> list[str]:
    return [c["t"] for c in children]


def _marks_allowed(rs, parent: str, children: list) -> bool:  # noqa: ANN001
    return all(rs.allows_mark(parent, m[0]) for c in children for m in c["m"])


def check(case: dict, ctx: Ctx) -> None:
    if case.get("pre") is not None:
        schemas.get(case["pre"])  # the original schema exists first, the twin under test is built second
        ctx.label("schema:twin-built-after-original")
    lib, rs = schemas.get(case["schema"])
    node_p = case["node"]
    assert V.valid(rs, node_p), V.node_problems(rs, node_p)
    node = P.build(lib, node_p)
    t = node_p["t"]
    kids = node_p["c"]
    nk = len(kids)
    repl_p = case["repl"]
    repl = P.build_fragment(lib, repl_p)
    nr = len(repl_p)
    nev = 0
    sk = case["schema"] if isinstance(case["schema"], str) else "random"

    def verdict(name: str, got, exp: bool, args) -> None:  # noqa: ANN001
        nonlocal nev
        nev += 1
        require(got.ok, f"{name}:raised", f"{name}{args} on {t}{_types(kids)} raised {got.exc!r}")
        require(bool(got.value) == exp, f"{name}:wrong", f"{name}{args} on {t}{_types(kids)} = {got.value!r}, reference {exp}")
        ctx.label(f"{name}:{exp}")
        if not exp or args:
            ctx.nontrivial([name, sk, node_p, list(args)])

    # valid_content / check / create_checked on the valid node and on the corrupted copy
    for label, p in (("valid", node_p), ("bad", case["bad"])):
        lp = P.build(lib, p)
        content_ok = rs.accepts(p["t"], _types(p["c"])) and _marks_allowed(rs, p["t"], p["c"])
        whole_ok = V.valid(rs, p)
        got = call("valid_content", lp.type.valid_content, lp.content)
        verdict("valid_content", got, content_ok, (label,))
        got = call("check", lp.check)
        nev += 1
        require(
            got.ok == whole_ok,
            "check:wrong",
            f"check() on {label} node {'passed' if got.ok else 'raised'}; reference problems: {V.node_problems(rs, p)[:2]} node={p}",
        )
        ctx.label(f"check:{whole_ok}")
        ctx.nontrivial(["check", sk, p])
        got = call("create_checked", lp.type.create_checked, copy.deepcopy(p["a"]), lp.content, list(lp.marks))
        nev += 1
        if p["t"] != "text":
            require(got.ok == content_ok, "create_checked:wrong", f"create_checked on {label} {p['t']}{_types(p['c'])}: {'returned' if got.ok else repr(got.exc)}, reference content_ok={content_ok}")
            if got.ok:
                require(P.plain(got.value)["c"] == p["c"], "create_checked:content", "content changed")
            got = call("schema.node", lib.node, p["t"], copy.deepcopy(p["a"]), lp.content, list(lp.marks))
            require(got.ok == content_ok, "schema.node:wrong", f"Schema.node on {label} {p['t']}{_types(p['c'])}")
    # missing required attribute
    for tn in rs.node_names:
        if rs.required[tn] and tn != "text":
            got = call("create_checked", lib.nodes[tn].create_checked, None, None, None)
            require(not got.ok, "create_checked:missing-attr-accepted", f"{tn} created without required attrs")

    if nk > 6:
        ctx.label("node:too-many-children-skipped-ranges")
        ctx.evaluations += nev - 1
        return
    ktypes = _types(kids)
    for f in range(nk + 1):
        for to in range(f, nk + 1):
            # can_replace with every sub-range of the replacement
            for s in range(nr + 1):
                for e in range(s, nr + 1):
                    seq = ktypes[:f] + _types(repl_p[s:e]) + ktypes[to:]
                    exp = rs.accepts(t, seq) and _marks_allowed(rs, t, repl_p[s:e])
                    got = call("can_replace", node.can_replace, f, to, repl, s, e)
                    verdict("can_replace", got, exp, (f, to, _types(repl_p), s, e))
            # default arguments: whole fragment / empty fragment
            got = call("can_replace", node.can_replace, f, to, repl)
            verdict("can_replace", got, rs.accepts(t, ktypes[:f] + _types(repl_p) + ktypes[to:]) and _marks_allowed(rs, t, repl_p), (f, to, _types(repl_p)))
            got = call("can_replace", node.can_replace, f, to)
            verdict("can_replace", got, rs.accepts(t, ktypes[:f] + ktypes[to:]), (f, to))
            for cand in rs.node_names:
                for ms_p in ([], case["marks"]):
                    ms = [P.build_mark(lib, m) for m in ms_p]
                    exp = rs.accepts(t, ktypes[:f] + [cand] + ktypes[to:]) and all(rs.allows_mark(t, m[0]) for m in ms_p)
                    got = call("can_replace_with", node.can_replace_with, f, to, lib.nodes[cand], ms if ms_p else None)
                    verdict("can_replace_with", got, exp, (f, to, cand, [m[0] for m in ms_p]))
    # can_append
    other_p = case["other"]
    other = P.build(lib, other_p)
    if other_p["c"]:
        exp = rs.accepts(t, ktypes + _types(other_p["c"])) and _marks_allowed(rs, t, other_p["c"])
    else:
        exp = t == other_p["t"] or bool(rx.first(rs.content[t]) & rx.first(rs.content[other_p["t"]]))
    if not rs.leaf[t]:
        got = call("can_append", node.can_append, other)
        verdict("can_append", got, exp, (other_p["t"], _types(other_p["c"])))
    ctx.evaluations += nev - 1
    _ = rm
