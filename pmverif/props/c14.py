"""C14 — mark sets are canonical and respect the schema's exclusion and permission rules.

Exhaustive part: every exclusion relation over three mark types (2^9), the attribute-carrying type at
each rank, exclusion spelled by names and by groups / "_" / "" / absent; every mark set reachable from
[] by additions and removals (BFS), every (set, mark) pair, every parent `marks` spec form.
Random part: 4-5 mark types with groups and attrs, random operation histories.
Oracle: ref.marks (ref_add etc.), derived from the spec text only.
"""
from __future__ import annotations

import itertools

from ..core import Ctx, call, require
from ..draw import Draw
from ..gen import schemas
from ..gen.docs import docgen
from ..ref import marks as rm
from ..ref import plain as P

ID = "C14"
RULE = (
    "exhaustive: all 512 exclusion relations over 3 mark types x attribute-carrying type at each rank x two spellings "
    "(names / groups,'_','',absent); for each configuration every mark set reachable from [] by add/remove and every "
    "(set, mark) pair, every parent marks-spec form. random: schemas with 4-5 mark types and operation histories. "
    "Non-trivial = an addition that displaces >=1 mark or is refused by an excluding mark, or a parent filter that drops "
    ">=1 mark; distinct by (configuration, set, mark)."
)
ASSUMPTIONS = [
    "mutually exclusive marks: the newcomer replaces the present mark (upstream: 'those are replaced by this one')",
    "'returns the set unchanged' is checked by value, not by object identity",
]
LEVEL_TEXT = (
    "Complete enumeration of all mark configurations with three mark types (every exclusion relation, rank position of "
    "the attribute-carrying type, both spellings), all reachable sets and all (set, mark) pairs, compared with a reference "
    "mark algebra written from the documentation; plus random histories over larger configurations. Exhaustive inside the "
    "stated bound, sampled beyond it."
)
LEVEL_NOTE = "Trusted: pmverif/ref/marks.py as the meaning of the documented addToSet/exclusion rules; bound: 3 mark types, 4 marks."
TECHNIQUE = "exhaustive enumeration of small mark configurations + Hypothesis operation histories vs reference mark algebra"
BUDGET = {
    "quick": {"shards": 6, "examples": 700},
    "thorough": {"shards": 12, "examples": 15000},
}
EXHAUSTIVE_BOUND = "3 mark types, all 2^9 exclusion relations, 3 positions of the attr type, 2 spellings, all reachable sets"

NAMES = ["m0", "m1", "m2"]


def _nodes() -> dict:
    return {
        "doc": {"content": "block+"},
        "pd": {"content": "text*", "group": "block"},
        "pa": {"content": "text*", "group": "block", "marks": "_"},
        "pn": {"content": "text*", "group": "block", "marks": ""},
        "p02": {"content": "text*", "group": "block", "marks": "m0 m2"},
        "p1": {"content": "text*", "group": "block", "marks": "m1"},
        "pg": {"content": "text*", "group": "block", "marks": "g0"},
        "box": {"content": "block+", "group": "block"},
        "boxa": {"content": "block+", "group": "block", "marks": "_"},
        # block-content parents with an explicit, restricted marks expression (names / a group): node marks on blocks
        "boxm": {"content": "block+", "group": "block", "marks": "m0 m2"},
        "boxg": {"content": "block+", "group": "block", "marks": "g0"},
        "leafm": {"group": "block", "marks": "m1"},
        "text": {},
    }


def config_spec(rel: int, attr_pos: int, spelling: int) -> dict:
    """rel: 9-bit matrix, bit (3*i+j) set <=> NAMES[i] excludes NAMES[j]."""
    marks: dict[str, dict] = {}
    for i, n in enumerate(NAMES):
        s: dict = {"group": f"g{i}" if i else "g0 gx"}
        if i == 1:
            s["group"] = "g1 gx"
        if i == attr_pos:
            s["attrs"] = {"id": {"default": 1}}
        ex = [NAMES[j] for j in range(3) if rel >> (3 * i + j) & 1]
        if ex == [n] and spelling == 0:
            pass  # absent = excludes itself
        elif not ex:
            s["excludes"] = ""
        elif len(ex) == 3 and spelling == 1:
            s["excludes"] = "_"
        elif spelling == 1:
            # spell by groups where a group denotes exactly the wanted types
            if set(ex) == {"m0", "m1"}:
                s["excludes"] = "gx"
            else:
                s["excludes"] = " ".join(f"g{NAMES.index(x)}" if x != "m0" else "m0" for x in ex)
        else:
            s["excludes"] = " ".join(ex)
        marks[n] = s
    return {"nodes": _nodes(), "marks": marks}


def exhaustive_shards(tier: str) -> list:
    rels = list(range(512))
    n = 8 if tier == "quick" else 16
    return [rels[i::n] for i in range(n)]


def exhaustive_cases(desc: list, tier: str):  # noqa: ANN201
    for rel in desc:
        for attr_pos in range(3):
            for spelling in (0, 1):
                yield {"mode": "exh", "rel": rel, "attr_pos": attr_pos, "spelling": spelling}


# ------------------------------------------------------------------ random part


_GROUP_TOKENS = ["f", "fo", "fmt", "fmt2", "x", "xf", "m", "m1x"]


def group_maze_spec(R: Draw) -> dict:
    """Mark groups whose names contain one another as substrings ("fmt" / "fmt2", "f" / "xf"), used in `excludes` and in
    node `marks` expressions: a group name denotes exactly the marks that list it as a whole word."""
    n = R.int(3, 5)
    marks: dict = {}
    used: list = []
    for i in range(n):
        sp: dict = {}
        toks = R.sample(_GROUP_TOKENS, R.int(0, 2))
        if toks:
            sp["group"] = " ".join(toks)
            used += toks
        if R.bool(0.3):
            sp["attrs"] = {"id": {"default": 1}}
        marks[f"m{i}"] = sp
    used = sorted(set(used))
    names = list(marks)
    for sp in marks.values():
        r = R.int(0, 9)
        if r < 2 or not used:
            continue  # absent: excludes itself
        if r == 2:
            sp["excludes"] = ""
        elif r == 3:
            sp["excludes"] = "_"
        else:
            sp["excludes"] = " ".join(R.sample(used + names, R.int(1, 2)))
    nodes = _nodes()
    for k in ("p02", "p1", "pg", "boxm", "boxg", "leafm"):
        nodes[k] = {**nodes[k], "marks": " ".join(R.sample(used + names, R.int(1, 2))) if used else "m0"}
    return {"nodes": nodes, "marks": marks}


def generate(R: Draw, tier: str) -> dict:
    if R.bool(0.25):
        sref = group_maze_spec(R)
        lib, rs = schemas.get(sref)
        g = docgen(rs)
        ops = []
        for _ in range(R.int(1, 10)):
            k = R.weighted([("add", 6), ("remove", 2), ("remove_type", 1), ("set_from", 1)])
            if k in ("add", "remove"):
                ops.append([k, g.mark(R, R.choice(rs.mark_names))])
            elif k == "remove_type":
                ops.append([k, R.choice(rs.mark_names)])
            else:
                ops.append([k, [g.mark(R, R.choice(rs.mark_names)) for _ in range(R.int(0, 4))]])
        return {"mode": "hist", "schema": sref, "ops": ops}
    if R.bool(0.5):
        sref = R.choice(schemas.MARK_VARIANTS + ["list", "doc_marks"])
        if R.bool(0.5):
            # permuted declaration order of the same mark configuration
            spec = schemas.spec_of(sref)
            order = R.shuffle(list(spec["marks"]))
            sref = {"nodes": spec["nodes"], "marks": {m: spec["marks"][m] for m in order}}
    else:
        sref = None
        for _ in range(5):
            sref = schemas.random_schema(R)
            if sref is not None and len(sref["marks"]) >= 2:
                break
        if sref is None or len(sref["marks"]) < 2:
            sref = "remark_user"
    lib, rs = schemas.get(sref)
    g = docgen(rs)
    ops = []
    for _ in range(R.int(1, 10)):
        k = R.weighted([("add", 6), ("remove", 2), ("remove_type", 1), ("set_from", 1)])
        if k == "add" or k == "remove":
            ops.append([k, g.mark(R, R.choice(rs.mark_names))])
        elif k == "remove_type":
            ops.append([k, R.choice(rs.mark_names)])
        else:
            ms = [g.mark(R, R.choice(rs.mark_names)) for _ in range(R.int(0, 4))]
            ops.append([k, ms])
    return {"mode": "hist", "schema": sref, "ops": ops}


# ------------------------------------------------------------------ oracle


def _lib_set(lib, s: list) -> list:  # noqa: ANN001
    return [P.build_mark(lib, m) for m in s]


def _plain_set(s: list) -> list:
    return [P.plain_mark(m) for m in s]


def check_pair(lib, rs, ctx: Ctx, cfg, s_plain: list, m_plain: list, shared: tuple = (False, False)) -> list:  # noqa: ANN001
    """All single-step assertions for (set, mark); returns the reference result of the addition.
    `shared` = (set, mark): build those from the type's shared all-defaults instance where the attributes are the
    defaults (what schema.mark(name) / type.create() hand out) - equal marks are equal whichever way they were made."""
    if shared == (False, False):
        # where a mark with default attributes is involved, the same questions are asked again with the shared
        # instance on one side and a separately constructed equal mark on the other
        def is_default(mk_: list) -> bool:
            sp = rs.marks[mk_[0]].get("attrs") or {}
            return bool(sp) and all("default" in (v or {}) for v in sp.values()) and mk_[1] == {k: v["default"] for k, v in sp.items()}

        if is_default(m_plain) or any(is_default(x) for x in s_plain):
            ctx.label("pair:shared-default-instance-variants")
            check_pair(lib, rs, ctx, cfg, s_plain, m_plain, (True, False))
            check_pair(lib, rs, ctx, cfg, s_plain, m_plain, (False, True))
    ctx.evaluations += 1
    s_lib = [P.build_mark(lib, x, shared[0]) for x in s_plain]
    snapshot = list(s_lib)
    m = P.build_mark(lib, m_plain, shared[1])
    exp = rm.ref_add(rs, m_plain, s_plain)
    got = call("add_to_set", m.add_to_set, s_lib)
    require(got.ok, "add_to_set:raised", f"{got.exc!r}")
    gp = _plain_set(got.value)
    require(gp == exp, "add_to_set:wrong", f"{m_plain} + {s_plain} -> {gp}, reference {exp}")
    require(
        len(s_lib) == len(snapshot) and all(a is b for a, b in zip(s_lib, snapshot)),
        "add_to_set:mutated-input",
        f"input list changed by add_to_set({m_plain}, {s_plain})",
    )
    require(rm.canonical(rs, gp), "add_to_set:not-canonical", f"result {gp} is not canonical")
    displaced = [o for o in s_plain if not rm.in_set(o, exp)]
    refused = exp == s_plain and not rm.in_set(m_plain, s_plain)
    if displaced or refused:
        ctx.nontrivial([cfg, s_plain, m_plain])
        ctx.label("add:displaces" if displaced else "add:refused")
    if displaced and any(rs.rank[o[0]] < rs.rank[m_plain[0]] for o in displaced) and any(
        not rm.in_set(o, displaced) and rs.rank[o[0]] < rs.rank[m_plain[0]] for o in s_plain
    ):
        ctx.label("add:displaces-earlier-keeps-earlier")
    # removal / membership / equality
    r = call("remove_from_set", m.remove_from_set, s_lib)
    require(r.ok and _plain_set(r.value) == rm.ref_remove(m_plain, s_plain), "remove_from_set:wrong", f"{m_plain} from {s_plain}")
    r = call("is_in_set", m.is_in_set, s_lib)
    require(r.ok and bool(r.value) == rm.in_set(m_plain, s_plain), "is_in_set:wrong", f"{m_plain} in {s_plain}")
    mt = lib.marks[m_plain[0]]
    r = call("type.is_in_set", mt.is_in_set, s_lib)
    first = next((o for o in s_plain if o[0] == m_plain[0]), None)
    require(
        r.ok and (None if r.value is None else P.plain_mark(r.value)) == first,
        "MarkType.is_in_set:wrong",
        f"{m_plain[0]} in {s_plain}",
    )
    r = call("type.remove_from_set", mt.remove_from_set, s_lib)
    require(r.ok and _plain_set(r.value) == rm.ref_remove_type(m_plain[0], s_plain), "MarkType.remove_from_set:wrong", f"{m_plain[0]} from {s_plain}")
    from prosemirror.model import Mark

    r = call("same_set", Mark.same_set, s_lib, got.value)
    require(r.ok and bool(r.value) == rm.same_set(s_plain, exp), "same_set:wrong", f"{s_plain} vs {exp}")
    r = call("same_set", Mark.same_set, s_lib, _lib_set(lib, s_plain))
    require(r.ok and r.value is True, "same_set:wrong", f"{s_plain} vs rebuilt copy")
    for o_plain, o in zip(s_plain, s_lib):
        r = call("eq", m.eq, o)
        require(r.ok and bool(r.value) == rm.mark_eq(m_plain, o_plain), "eq:wrong", f"{m_plain} eq {o_plain}")
        r = call("excludes", mt.excludes, o.type)
        require(r.ok and bool(r.value) == rs.excludes(m_plain[0], o_plain[0]), "excludes:wrong", f"{m_plain[0]} excludes {o_plain[0]}")
    # set_from: stable sort by rank of any permutation
    perm = list(reversed(s_plain)) + [m_plain]
    r = call("set_from", Mark.set_from, _lib_set(lib, perm))
    require(r.ok and _plain_set(r.value) == rm.sorted_by_rank(rs, perm), "set_from:wrong", f"set_from({perm})")
    return exp


def check_parents(lib, rs, ctx: Ctx, cfg, s_plain: list) -> None:  # noqa: ANN001
    s_lib = _lib_set(lib, s_plain)
    ctx.evaluations += len(rs.node_names)
    for pname in rs.node_names:
        pt = lib.nodes[pname]
        exp = rm.ref_allowed(rs, pname, s_plain)
        r = call("allowed_marks", pt.allowed_marks, s_lib)
        require(r.ok and _plain_set(r.value) == exp, "allowed_marks:wrong", f"{pname}.allowed_marks({s_plain}) -> {_plain_set(r.value) if r.ok else r.exc!r}, reference {exp}")
        r = call("allows_marks", pt.allows_marks, s_lib)
        require(r.ok and bool(r.value) == (exp == s_plain), "allows_marks:wrong", f"{pname}.allows_marks({s_plain})")
        for mn in rs.mark_names:
            r = call("allows_mark_type", pt.allows_mark_type, lib.marks[mn])
            require(r.ok and bool(r.value) == rs.allows_mark(pname, mn), "allows_mark_type:wrong", f"{pname} allows {mn}")
        if exp != s_plain:
            ctx.label("filter:drops")
            ctx.nontrivial([cfg, pname, s_plain])


def check(case: dict, ctx: Ctx) -> None:
    if case["mode"] == "exh":
        spec = config_spec(case["rel"], case["attr_pos"], case["spelling"])
        lib, rs = schemas.get(spec)
        cfg = [case["rel"], case["attr_pos"], case["spelling"]]
        # reference reading of the relation must be what the case number says (spelling self-test)
        for i, j in itertools.product(range(3), range(3)):
            assert rs.excludes(NAMES[i], NAMES[j]) == bool(case["rel"] >> (3 * i + j) & 1), (case, i, j)
        marks = []
        for i, n in enumerate(NAMES):
            if i == case["attr_pos"]:
                marks += [[n, {"id": 1}], [n, {"id": 2}]]
            else:
                marks.append([n, {}])
        seen = {P.jkey([])}
        work: list[list] = [[]]
        n_pairs = 0
        while work:
            s = work.pop()
            check_parents(lib, rs, ctx, cfg, s)
            for m in marks:
                n_pairs += 1
                nxt = check_pair(lib, rs, ctx, cfg, s, m)
                for cand in (nxt, rm.ref_remove(m, s)):
                    k = P.jkey(cand)
                    if k not in seen:
                        seen.add(k)
                        work.append(cand)
        ctx.evaluations -= 1
        ctx.label("exh:config")
        ctx.labels["exh:reachable-sets"] += len(seen)
        return
    lib, rs = schemas.get(case["schema"])
    cfg = "hist"
    cur: list = []
    for op, arg in case["ops"]:
        if op == "add":
            cur = check_pair(lib, rs, ctx, cfg, cur, arg)
        elif op == "remove":
            check_pair(lib, rs, ctx, cfg, cur, arg)
            cur = rm.ref_remove(arg, cur)
        elif op == "remove_type":
            cur = rm.ref_remove_type(arg, cur)
        else:
            # set_from of an arbitrary list then canonicalised by folding additions
            nxt: list = []
            for m in rm.sorted_by_rank(rs, arg):
                nxt = check_pair(lib, rs, ctx, cfg, nxt, m)
            cur = nxt
        assert rm.canonical(rs, cur), cur
        check_parents(lib, rs, ctx, cfg, cur)
    ctx.label("hist")
    ctx.evaluations -= 1
