"""C15 — content filling and wrapper search are sound and find an answer when one exists."""
from __future__ import annotations

from collections import deque

from ..core import Ctx, call, require
from ..draw import Draw
from ..gen import schemas
from ..gen.docs import docgen
from ..ref import plain as P
from ..ref import rx
from ..ref import validate as V

ID = "C15"
RULE = (
    "schema from the zoo or a random well-founded schema (with text and required-attribute types, self-referencing containers); for a "
    "drawn host node type EVERY reachable match state (reached through match_type along a reference path) x to_end in {F,T} x every "
    "start index of a drawn `after` fragment (continuations and non-continuations) for fill_before; EVERY target node type of the schema for "
    "find_wrapping (asked twice: cache path); create_and_fill with drawn content. Non-trivial = a filling of length >=1 or a refusal; a "
    "wrapper chain of length >=1 or a refusal; distinct by (schema, state path, arguments)."
)
ASSUMPTIONS = [
    "hosts whose reference automaton has 600 or more match states are not judged (slow, not wrong: see C06)",
    "schemas are well-founded: every node type has a finite minimal instance built from generatable nodes (DESIGN.md §3.7)",
    "no completeness is claimed for create_and_fill (the statement allows 'or nothing')",
]
LEVEL_TEXT = (
    "Generated schemas, then complete over the match states of a host type: existence of a filling and the minimum wrapper-chain length "
    "are decided by breadth-first search over reference derivative states and compared with fill_before / find_wrapping in both directions "
    "(answer exists <=> library answers; every answer is checked against the stated predicate). Sampling over schemas and fragments."
)
LEVEL_NOTE = "Trusted: pmverif/ref/rx.py derivatives and ref/schema.py (generatable / leaf / required-attribute classification)."
TECHNIQUE = "property-based testing (Hypothesis schemas) x exhaustive match states; existence and minimality decided by BFS over reference derivatives"
BUDGET = {
    "quick": {"shards": 8, "examples": 1200},
    "thorough": {"shards": 16, "examples": 10000},
}

ZOO_NAMES = schemas.GROUP_V + schemas.GROUP_X


_TEMPLATES = ["{x}", "{x} {y}", "{x}+", "{x} {y}*", "({x} | {y})", "{x}? {y}", "{x} {y}?", "({x} | {y})+", "{x}{{1,2}}", "{y} {x}"]


def maze_spec(R: Draw) -> dict:
    """Wrapper maze: 3-6 container types whose content mentions other containers in sequences, options and
    choices, so that a type can appear as a first child both where it may and where it may not be the only child."""
    n = R.int(3, 6)
    conts = [f"w{i}" for i in range(n)]
    nodes: dict = {"doc": {}, "para": {"content": "text*"}, "item": {}, "text": {}}
    for i, c in enumerate(conts):
        pool = [x for x in conts if x != c] + ["para", "item"]
        x, y = R.choice(pool), R.choice(pool)
        nodes[c] = {"content": R.choice(_TEMPLATES).format(x=x, y=y)}
        if R.bool(0.15):
            nodes[c]["attrs"] = {"k": {}}  # needs attributes: never a wrapper
        elif R.bool(0.25):
            nodes[c]["attrs"] = {"k": {"default": R.choice([None, 0])}}  # all attributes defaulted: still a wrapper
    tops = R.sample(conts + ["para"], R.int(1, 3))
    lead = "para " if R.bool(0.5) else ""
    nodes["doc"] = {"content": f"{lead}({' | '.join(tops)})*"}
    order = ["doc"] + R.shuffle(conts + ["para", "item"]) + ["text"]
    return {"nodes": {k: nodes[k] for k in order}, "marks": {}}


LARGE_AUTOMATON = 600  # reference match states of the host; above this the case is inconclusive


def fill_maze_spec(R: Draw) -> dict:
    """Backtracking maze for fill_before: a host whose expression is a random tree of choices and sequences over a few
    leaf types, so that an alternative listed first can start with generatable nodes and still dead-end for the content
    that follows (`a b+ | c d` before [d], `(a b | c) d`, ...)."""
    from ..gen import exprs

    names = ["x", "y", "z", "u"][: R.int(3, 4)]
    if R.bool(0.3):
        names.append("req")
    for _ in range(4):
        ast = exprs.random_ast(R, names, R.int(3, 7), ["?", "*", "+", "{1,2}"])
        if exprs.expansion(exprs.render(ast)) <= 60:
            break
    nodes: dict = {"doc": {"content": "host+"}, "host": {"content": exprs.render(ast)}}
    for n in names:
        # "req" needs an attribute (never generatable); others sometimes have attributes that all have defaults, a
        # default of None included - those stay generatable
        nodes[n] = {"attrs": {"k": {}}} if n == "req" else ({"attrs": {"k": {"default": R.choice([None, 0, "d"])}}} if R.bool(0.3) else {})
    nodes["text"] = {}
    return {"nodes": nodes, "marks": {}}


def _maze_schema(R: Draw, make=None):  # noqa: ANN001, ANN202
    import copy as _copy

    from prosemirror.model import Schema

    from ..ref.schema import RefSchema, SpecError

    for _ in range(6):
        spec = (make or maze_spec)(R)
        try:
            rs = RefSchema(_copy.deepcopy(spec))
        except SpecError:
            continue
        if not schemas.well_founded(rs):
            continue
        try:
            lib = Schema(_copy.deepcopy(spec))
        except Exception:  # noqa: BLE001, S112
            continue
        if schemas.default_choice_terminates(lib, rs):
            return spec
    return None


def generate(R: Draw, tier: str) -> dict:
    sref = None
    kind = R.weighted([("maze", 4), ("fill-maze", 3), ("other", 3)])
    if kind == "maze":
        sref = _maze_schema(R)
    elif kind == "fill-maze":
        sref = _maze_schema(R, fill_maze_spec)
    if sref is None:
        sref = schemas.pick_schema(R, ZOO_NAMES, p_random=0.6)
        kind = "other"
    lib, rs = schemas.get(sref)
    g = docgen(rs)
    hosts = [t for t in rs.node_names if not rs.leaf[t]]
    host = "host" if kind == "fill-maze" else R.choice(hosts)
    # `after`: either a walk from some state of the host (a real continuation) or arbitrary types
    after = []
    if R.bool(0.6):
        st = rs.content[host]
        for _ in range(R.int(0, 2)):  # skip a prefix so that the continuation starts mid-expression
            f = sorted(rx.first(st))
            if not f:
                break
            st = rx.deriv(st, R.choice(f))
        for _ in range(R.int(0, 3)):
            f = sorted(rx.first(st))
            if not f:
                break
            a = R.choice(f)
            after.append(a)
            st = rx.deriv(st, a)
    else:
        pool = [t for t in rs.node_names if t != rs.top]
        after = [R.choice(pool) for _ in range(R.int(0, 3))]
    nodes = []
    for a in after:
        nodes.append(P.mk("text", {}, None, [], "a") if a == "text" else g.node(R, a, 0, 0))
    fill_content = []
    if R.bool(0.7):
        f = sorted(rx.first(rs.content[host]))
        pool = f or [t for t in rs.node_names if t != rs.top]
        for a in [R.choice(pool) for _ in range(R.int(1, 2))]:
            fill_content.append(P.mk("text", {}, None, [], "a") if a == "text" else g.node(R, a, 0, 0))
        from ..gen.mutate import normalize_children

        fill_content = normalize_children(fill_content)
    return {"schema": sref, "host": host, "after": nodes, "fill_content": fill_content}


def _state_paths(r0, limit: int = 60) -> list[tuple]:  # noqa: ANN001
    """[(path, state)] for every reachable live derivative state (shortest path each)."""
    seen = {r0: ()}
    dq = deque([r0])
    while dq and len(seen) < limit:
        cur = dq.popleft()
        for a in sorted(rx.first(cur)):
            d = rx.deriv(cur, a)
            if d is not rx.EMPTY and d not in seen:
                seen[d] = seen[cur] + (a,)
                dq.append(d)
    return [(p, s) for s, p in seen.items()]


def _fill_exists(rs, state, rest: list[str], to_end: bool) -> bool:  # noqa: ANN001
    """Is there a sequence w of generatable types with state.w.rest live (nullable if to_end)?"""
    seen = {state}
    dq = deque([state])
    while dq:
        cur = dq.popleft()
        fin = rx.run(cur, rest)
        if fin is not rx.EMPTY and (not to_end or rx.nullable(fin)):
            return True
        for a in sorted(rx.first(cur)):
            if rs.generatable[a]:
                d = rx.deriv(cur, a)
                if d is not rx.EMPTY and d not in seen:
                    seen.add(d)
                    dq.append(d)
    return False


def _wrappable(rs, t: str) -> bool:  # noqa: ANN001
    return not rs.leaf[t] and not rs.required[t]


def _min_wrapping(rs, state, target: str) -> int | None:  # noqa: ANN001
    if rx.deriv(state, target) is not rx.EMPTY:
        return 0
    level = [w for w in rs.node_names if _wrappable(rs, w) and rx.deriv(state, w) is not rx.EMPTY]
    seen = set(level)
    depth = 1
    while level:
        for w in level:
            if rx.deriv(rs.content[w], target) is not rx.EMPTY:
                return depth
        nxt = []
        for w in level:
            for x in rs.node_names:
                if x in seen or not _wrappable(rs, x):
                    continue
                d = rx.deriv(rs.content[w], x)
                if d is not rx.EMPTY and rx.nullable(d):
                    seen.add(x)
                    nxt.append(x)
        level = nxt
        depth += 1
    return None


def _chain_ok(rs, state, chain: list[str], target: str) -> str | None:  # noqa: ANN001
    """None if the chain satisfies the stated predicate, else the reason."""
    if not chain:
        return None if rx.deriv(state, target) is not rx.EMPTY else "empty chain but target not accepted here"
    for w in chain:
        if rs.leaf[w]:
            return f"wrapper {w} is a leaf"
        if rs.required[w]:
            return f"wrapper {w} needs attributes"
    if rx.deriv(state, chain[0]) is rx.EMPTY:
        return f"first wrapper {chain[0]} not allowed at the position"
    for a, b in zip(chain, chain[1:]):
        d = rx.deriv(rs.content[a], b)
        if d is rx.EMPTY or not rx.nullable(d):
            return f"{a} cannot hold {b} as its only child"
    if rx.deriv(rs.content[chain[-1]], target) is rx.EMPTY:
        return f"innermost {chain[-1]} does not accept {target} first"
    return None


def check(case: dict, ctx: Ctx) -> None:
    lib, rs = schemas.get(case["schema"])
    host = case["host"]
    ht = lib.nodes[host]
    after_p = case["after"]
    after = P.build_fragment(lib, after_p)
    after_types = [c["t"] for c in after_p]
    sk = case["schema"] if isinstance(case["schema"], str) else case["schema"]
    nev = 0
    if len(rx.states(rs.content[host], limit=LARGE_AUTOMATON)) >= LARGE_AUTOMATON:
        # counted groups nested in counted groups unfold to thousands of match states; fill_before and find_wrapping
        # walk them with list scans and take minutes without being wrong - a time limit cannot tell slow from stuck
        ctx.label("skipped:automaton-too-large")
        return
    for path, state in _state_paths(rs.content[host]):
        m = ht.content_match
        for a in path:
            m = m.match_type(lib.nodes[a])
            assert m is not None, (host, path)  # C06 decides agreement; here it is a precondition
        # ---- fill_before
        for to_end in (False, True):
            for start in range(len(after_types) + 1):
                nev += 1
                rest = after_types[start:]
                exists = _fill_exists(rs, state, rest, to_end)
                o = call("fill_before", m.fill_before, after, to_end, start)
                require(o.ok, "fill_before:raised", f"{host} after {list(path)}: fill_before({after_types},{to_end},{start}) raised {o.exc!r}")
                key = ["fill", sk, host, list(path), after_types, to_end, start]
                if o.value is None:
                    require(not exists, "fill_before:missed", f"{host} after {list(path)}: fill_before({after_types},{to_end},{start}) = None but a generatable filling exists")
                    ctx.label("fill:none")
                    ctx.nontrivial(key)
                    continue
                fill = P.plain_fragment(o.value)
                ftypes = [c["t"] for c in fill]
                for c in fill:
                    require(rs.generatable[c["t"]], "fill_before:non-generatable", f"{host} after {list(path)}: filler {c['t']} is not generatable")
                    probs = V.node_problems(rs, c)
                    require(not probs, "fill_before:invalid-filler", f"{host}: filler {c['t']} invalid: {probs[:1]}")
                    require(c["a"] == rs.default_attrs("node", c["t"]) and not c["m"], "fill_before:decorated-filler", f"filler {c} has non-default attrs or marks")
                fin = rx.run(state, ftypes + rest)
                require(
                    fin is not rx.EMPTY and (not to_end or rx.nullable(fin)),
                    "fill_before:does-not-fit",
                    f"{host} after {list(path)}: fill {ftypes} + {rest} does not match (to_end={to_end})",
                )
                if ftypes:
                    ctx.label("fill:nonempty")
                    ctx.nontrivial(key)
                else:
                    ctx.label("fill:empty")
        # ---- find_wrapping
        for target in rs.node_names:
            nev += 1
            ell = _min_wrapping(rs, state, target)
            o = call("find_wrapping", m.find_wrapping, lib.nodes[target])
            require(o.ok, "find_wrapping:raised", f"{host} after {list(path)} target {target}: {o.exc!r}")
            key = ["wrap", sk, host, list(path), target]
            if o.value is None:
                require(ell is None, "find_wrapping:missed", f"{host} after {list(path)}: no wrapping for {target}, reference finds one of length {ell}")
                ctx.label("wrap:none")
                ctx.nontrivial(key)
            else:
                chain = [t.name for t in o.value]
                why = _chain_ok(rs, state, chain, target)
                require(why is None, "find_wrapping:bad-chain", f"{host} after {list(path)}: chain {chain} for {target}: {why}")
                require(ell is not None and len(chain) == ell, "find_wrapping:not-shortest", f"{host} after {list(path)}: chain {chain} for {target}, shortest has length {ell}")
                if chain:
                    ctx.label(f"wrap:len{min(len(chain), 3)}")
                    ctx.nontrivial(key)
                else:
                    ctx.label("wrap:len0")
            o2 = call("find_wrapping", m.find_wrapping, lib.nodes[target])
            same = (o2.value is None and o.value is None) or (
                o2.value is not None and o.value is not None and [t.name for t in o2.value] == [t.name for t in o.value]
            )
            require(o2.ok and same, "find_wrapping:cache-differs", f"{host}: second identical query differs for {target}")
    # ---- find_wrapping again from the START state of every other container type, after the host's states have been
    # queried: answers are cached per match state, and a cache entry written while answering one state must not
    # change what another state answers
    for w in rs.node_names:
        if rs.leaf[w] or w == host:
            continue
        mw = lib.nodes[w].content_match
        for target in rs.node_names:
            nev += 1
            ell = _min_wrapping(rs, rs.content[w], target)
            o = call("find_wrapping", mw.find_wrapping, lib.nodes[target])
            require(o.ok, "find_wrapping:raised", f"{w} start, target {target}: {o.exc!r}")
            if o.value is None:
                require(ell is None, "find_wrapping:missed", f"{w} start (after the queries on {host}): no wrapping for {target}, reference finds one of length {ell}")
            else:
                chain = [t.name for t in o.value]
                why = _chain_ok(rs, rs.content[w], chain, target)
                require(why is None, "find_wrapping:bad-chain", f"{w} start (after the queries on {host}): chain {chain} for {target}: {why}")
                require(ell is not None and len(chain) == ell, "find_wrapping:not-shortest", f"{w} start (after the queries on {host}): chain {chain} for {target}, shortest has length {ell}")
                if chain:
                    ctx.label("wrap:other-type-after-host")
    # ---- create_and_fill
    content_p = case["fill_content"]
    nev += 1
    o = call("create_and_fill", ht.create_and_fill, None if rs.default_attrs("node", host) is not None else {a: 1 for a in rs.required[host]}, P.build_fragment(lib, content_p), None)
    require(o.ok, "create_and_fill:raised", f"{host}.create_and_fill({[c['t'] for c in content_p]}) raised {o.exc!r}")
    if o.value is None:
        ctx.label("create_and_fill:none")
    else:
        got = P.plain(o.value)
        probs = V.node_problems(rs, got)
        # marks on given content are the caller's business; only structure created by the library is judged
        require(not [p for p in probs if "mark" not in p], "create_and_fill:invalid", f"{host}.create_and_fill({[c['t'] for c in content_p]}) -> {[c['t'] for c in got['c']]}: {probs[:1]}")
        kids = got["c"]
        k = len(content_p)
        found = any(kids[i : i + k] == content_p for i in range(len(kids) - k + 1))
        require(found, "create_and_fill:content-lost", f"{host}: given content not contiguous in result {[c['t'] for c in kids]}")
        ctx.label("create_and_fill:node")
        if len(kids) > k:
            ctx.nontrivial(["caf", sk, host, content_p])
    ctx.evaluations += nev - 1
