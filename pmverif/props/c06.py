"""C06 — a content expression and its compiled matcher accept exactly the same sequences.

Per expression the decision is complete: the library automaton (walked through match_type from the
host type's content_match) is compared state-by-state with Brzozowski derivatives of the reference
regex over the whole alphabet — language equivalence and exact liveness for sequences of any length.
"""
from __future__ import annotations

from ..core import Ctx, Violation, call, require
from ..draw import Draw
from ..gen import exprs as ge
from ..ref import rx
from ..ref.schema import RefSchema, SpecError

ID = "C06"
RULE = (
    "exhaustive: every expression syntax tree up to the stated operator count over names a b c and group g={a,b} with the "
    "stated postfix forms; random: trees of 4..12 operators over a b c d r(required attr) g with redundant parentheses and "
    "whitespace, an inline family over text/img(required attr)/br, and malformed mutations of well-formed renderings. Each "
    "well-formed expression is installed as the content of a host node in a fresh Schema and decided by walking all reachable "
    "(library state, reference derivative) pairs. Non-trivial = the reference automaton has >=3 live states, or the expression "
    "uses a braced range or nests an operator over a group; malformed inputs are non-trivial when the reference rejects them. "
    "Distinct by rendered expression."
)
ASSUMPTIONS = [
    "expressions that unfold to 400 or more atoms (nested counted groups multiply) or whose reference automaton has 1200 or more states are not judged (compilation time grows with the automaton, which nested counted groups make exponential in the text; a time limit cannot tell slow from stuck)",
    "{n,m} with m < n is unspecified upstream and not generated",
    "'rejected' = Schema(...) raises any exception (the port signals malformed expressions with SyntaxError, and with "
    "TypeError when the expression ends where an atom is expected)",
]
LEVEL_TEXT = (
    "For each generated expression an automaton-equivalence decision (product walk of the compiled matcher and reference "
    "derivatives over the full alphabet), so acceptance and liveness agree for child sequences of every length; expressions "
    "are enumerated exhaustively up to the recorded operator count and sampled beyond it; malformed inputs must be rejected "
    "exactly when the reference grammar/dead-end rule rejects them."
)
LEVEL_NOTE = "Trusted: pmverif/ref/rx.py (own parser for the documented grammar + Brzozowski derivatives) and ref/schema.py name/group resolution."
TECHNIQUE = "exhaustive enumeration of expression syntax trees + Hypothesis random expressions; per-expression automaton equivalence against Brzozowski derivatives"
BUDGET = {
    "quick": {"shards": 6, "examples": 600},
    "thorough": {"shards": 12, "examples": 20000},
}
EXHAUSTIVE_BOUND = {
    "quick": "all trees with <=2 operators (10 postfix forms) and all trees with 3 operators (5 postfix forms) over {a,b,c,g}",
    "thorough": "all trees with <=3 operators (10 postfix forms) and all trees with 4 operators (5 postfix forms, names a b g) ",
}

NAMES = ("a", "b", "c", "g")


def exhaustive_shards(tier: str) -> list:
    n = 16
    out = []
    if tier == "quick":
        plan = [(0, NAMES, "full"), (1, NAMES, "full"), (2, NAMES, "full"), (3, NAMES, "small")]
    else:
        plan = [(0, NAMES, "full"), (1, NAMES, "full"), (2, NAMES, "full"), (3, NAMES, "full"), (4, ("a", "b", "g"), "small")]
    for size, names, pf in plan:
        for r in range(n):
            out.append({"size": size, "names": list(names), "postfix": pf, "mod": n, "rem": r})
    return out


def exhaustive_cases(desc: dict, tier: str):  # noqa: ANN201
    pf = tuple(ge.POSTFIX_FULL if desc["postfix"] == "full" else ge.POSTFIX_SMALL)
    for k, e in enumerate(ge.enumerate_size(desc["size"], tuple(desc["names"]), pf)):
        if k % desc["mod"] == desc["rem"]:
            yield {"mode": "block", "expr": ge.render(e), "ast_size": desc["size"]}


def _mutate_malformed(R: Draw, s: str) -> str:
    k = R.weighted([("drop", 4), ("ins", 4), ("unknown", 2), ("mix", 2), ("trail", 2)])
    if k == "drop" and len(s) > 1:
        cand = [i for i, ch in enumerate(s) if ch in "(){}|,"] or list(range(len(s)))
        i = R.choice(cand)
        return s[:i] + s[i + 1 :]
    if k == "ins":
        i = R.int(0, len(s))
        return s[:i] + R.choice(["(", ")", "{", "}", "|", "+", "*", "?", ",", "{2", "2}", "{,2}", "{}", "||", "()"]) + s[i:]
    if k == "unknown":
        return s + " zzz"
    if k == "mix":
        return s + " text"
    return s + R.choice([" )", " }", " |", " ("])


def generate(R: Draw, tier: str) -> dict:
    k = R.weighted([("block", 5), ("inline", 3), ("malformed", 3), ("deadend", 2)])
    if k == "block":
        e = ge.random_ast(R, ["a", "b", "c", "d", "g", "g"], R.int(3, 12))
        return {"mode": "block", "expr": ge.render(e, R), "ast_size": None, "variant": R.int(1, 7), "variant2": R.int(1, 7)}
    if k == "inline":
        e = ge.random_ast(R, ["text", "br", "inline", "img"], R.int(0, 7))
        return {"mode": "inline", "expr": ge.render(e, R)}
    if k == "deadend":
        e = ge.random_ast(R, ["a", "r", "r", "g"], R.int(0, 5))
        return {"mode": "block", "expr": ge.render(e, R), "ast_size": None}
    names = ["a", "b", "c", "g"]
    e = ge.random_ast(R, names, R.int(0, 5))
    s = ge.render(e, R)
    for _ in range(R.int(1, 2)):
        s = _mutate_malformed(R, s)
    return {"mode": R.choice(["block", "block", "inline"]), "expr": s, "malformed_by_construction": True}


LARGE_EXPANSION = 400  # unfolded size of the expression text (gen.exprs.expansion): the library's NFA grows with it even when the minimal automaton is small
LARGE_AUTOMATON = 1200  # reference derivative states; above this a case is inconclusive (see check)


def spec_for(case: dict) -> dict:
    if case["mode"] == "block":
        # which of a, b, c belong to the group "g" (bits 1, 2, 4); 3 = {a, b} is the layout of the exhaustive part.
        # The same expression text means different things under different memberships.
        v = case.get("variant", 3)

        def grp(bit: int) -> dict:
            return {"group": "g"} if v & bit else {}

        return {
            "nodes": {
                "doc": {"content": "host+"},
                "host": {"content": case["expr"]},
                "a": grp(1),
                "b": grp(2),
                "c": grp(4),
                "d": {},
                "r": {"attrs": {"must": {}}},
                "para": {"content": "text*"},
                "text": {},
            },
            "marks": {},
        }
    return {
        "nodes": {
            "doc": {"content": "host+"},
            "host": {"content": case["expr"]},
            "text": {"group": "inline"},
            "br": {"inline": True, "group": "inline"},
            "img": {"inline": True, "group": "inline", "attrs": {"src": {}}},
            "a": {"group": "g"},
            "b": {"group": "g"},
            "c": {},
        },
        "marks": {},
    }


def check(case: dict, ctx: Ctx) -> None:
    """The expression is judged under its group layout and then - in the same process, with the same node names -
    under a second layout: what an expression means depends on the schema it is compiled for, not on its text."""
    _check_one(case, ctx)
    if case.get("variant2") is not None and case["mode"] == "block":
        ctx.label("second-group-layout")
        _check_one({**case, "variant": case["variant2"]}, ctx)


def _check_one(case: dict, ctx: Ctx) -> None:
    from prosemirror.model import Fragment, Schema

    spec = spec_for(case)
    try:
        rs = RefSchema(spec_for(case))
        ref_err = None
    except SpecError as e:
        rs = None
        ref_err = str(e)
    if rs is not None and (ge.expansion(case["expr"]) >= LARGE_EXPANSION or len(rx.states(rs.content["host"], limit=LARGE_AUTOMATON)) >= LARGE_AUTOMATON):
        # nested counted groups / ambiguous repetitions unfold to automata of tens of thousands of states; compiling
        # them takes minutes without being wrong, and a time limit could not tell slow from stuck: inconclusive
        ctx.label("skipped:automaton-too-large")
        return
    try:
        o = call("schema", Schema, spec, reject=(Exception,))
    except Violation as v:
        if v.clause.endswith(":hang") and ge.expansion(case["expr"]) >= 30:
            # counted groups over ambiguous alternatives (`(text inline{3,4}){2,3}` with text in the group inline):
            # the subset construction is exponential there; slow is not stuck, and the time limit cannot tell
            ctx.label("inconclusive:slow-compile-of-nested-counts")
            return
        raise
    if rs is None and "unspecified upstream" in (ref_err or ""):
        # {n,m} with m < n: neither the documentation nor upstream says what it means (upstream compiles it to
        # something); whatever the library does with it is outside the statement
        ctx.label("skipped:range-max-below-min")
        return
    if rs is None:
        require(not o.ok, "reject:accepted-malformed", f"Schema accepted {case['expr']!r}; reference: {ref_err}")
        ctx.label("rejected:" + type(o.exc).__name__)
        ctx.label("malformed")
        ctx.nontrivial(["malformed", case["mode"], case["expr"]])
        return
    require(o.ok, "accept:rejected-wellformed", f"Schema rejected {case['expr']!r}: {o.exc!r}")
    lib = o.value
    host = lib.nodes["host"]
    r0 = rs.content["host"]
    alpha = [n for n in rs.node_names if n not in ("doc", "host")]
    types = {n: lib.nodes[n] for n in alpha}
    start = host.content_match
    seen: set = set()
    work = [(start, r0, ())]
    live_states = set()
    n_pairs = 0
    while work:
        st, r, path = work.pop()
        key = (id(st), r)
        if key in seen:
            continue
        seen.add(key)
        live_states.add(r)
        n_pairs += 1
        require(
            bool(st.valid_end) == rx.nullable(r),
            "equiv:valid_end",
            f"{case['expr']!r} after {list(path)}: valid_end={st.valid_end}, reference nullable={rx.nullable(r)}",
        )
        edge_types = []
        ec = call("edge_count", lambda: st.edge_count)
        require(ec.ok, "edge:raised", repr(ec.exc))
        for i in range(ec.value):
            e = call("edge", st.edge, i)
            require(e.ok, "edge:raised", repr(e.exc))
            edge_types.append(e.value.type.name)
            nx = call("match_type", st.match_type, e.value.type)
            require(nx.ok and nx.value is e.value.next, "edge:inconsistent", f"{case['expr']!r}: edge({i}) and match_type disagree")
        require(len(set(edge_types)) == len(edge_types), "edge:duplicate-type", f"{case['expr']!r} after {list(path)}: edges {edge_types}")
        bad = call("edge", st.edge, ec.value)
        require(not bad.ok, "edge:out-of-range-accepted", f"edge({ec.value}) returned")
        for a in alpha:
            nx = call("match_type", st.match_type, types[a])
            require(nx.ok, "match_type:raised", repr(nx.exc))
            d = rx.deriv(r, a)
            require(
                (nx.value is None) == (d == rx.EMPTY),
                "equiv:liveness",
                f"{case['expr']!r} after {list(path)} then {a}: library {'dead' if nx.value is None else 'live'}, "
                f"reference {'dead' if d == rx.EMPTY else 'live'}",
            )
            require((a in edge_types) == (d != rx.EMPTY), "edge:set", f"{case['expr']!r}: edge set {edge_types} vs first-set")
            if nx.value is not None:
                work.append((nx.value, d, path + (a,)))
        # default_type: None iff no generatable type can come next; otherwise a generatable member of the first-set
        dt = call("default_type", lambda: st.default_type)
        require(dt.ok, "default_type:raised", repr(dt.exc))
        gen_first = [a for a in rx.first(r) if rs.generatable[a]]
        if dt.value is None:
            require(not gen_first, "default_type:none", f"{case['expr']!r} after {list(path)}: default_type None, generatable {gen_first}")
        else:
            require(dt.value.name in gen_first, "default_type:wrong", f"{case['expr']!r}: default_type {dt.value.name} not in {gen_first}")
            first_gen_edge = next(t for t in edge_types if rs.generatable[t])
            require(dt.value.name == first_gen_edge, "default_type:not-first", f"{dt.value.name} vs first generatable edge {first_gen_edge}")
        if len(seen) > 4000:
            break
    # match_fragment on a few sequences == step-wise walk (reference run)
    import itertools

    seqs = [list(p) for n in range(0, 4) for p in itertools.islice(itertools.product(alpha[:3], repeat=n), 12)]
    for sq in seqs:
        nodes = []
        for a in sq:
            nodes.append(lib.text("x") if a == "text" else lib.nodes[a].create({"must": 1, "src": "s"}))
        frag = Fragment(nodes)
        for s_i in range(0, len(sq) + 1):
            for e_i in range(s_i, len(sq) + 1):
                m = call("match_fragment", start.match_fragment, frag, s_i, e_i)
                require(m.ok, "match_fragment:raised", repr(m.exc))
                rr = rx.run(r0, sq[s_i:e_i])
                require(
                    (m.value is None) == (rr == rx.EMPTY) and (m.value is None or bool(m.value.valid_end) == rx.nullable(rr)),
                    "match_fragment:wrong",
                    f"{case['expr']!r}.match_fragment({sq}, {s_i}, {e_i})",
                )
    # inline_content flag of the host
    require(
        bool(host.inline_content) == rs.inline_content["host"],
        "inline_content:wrong",
        f"{case['expr']!r}: inline_content={host.inline_content}",
    )
    ctx.evaluations += n_pairs - 1
    ctx.label("wellformed:" + case["mode"])
    nstates = len(live_states)
    ctx.label(f"ref-states:{min(nstates, 6)}{'+' if nstates >= 6 else ''}")
    if nstates >= 3 or "{" in case["expr"] or ("g" in case["expr"] and any(ch in case["expr"] for ch in "*+?")):
        ctx.nontrivial([case["mode"], case["expr"]])
