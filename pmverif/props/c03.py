"""C03 — a step's position map describes exactly what the step did to the document."""
from __future__ import annotations

from ..core import Ctx, Hang, call, fail_unless_known, require, time_limit
from ..draw import Draw
from ..gen import ops as go
from ..gen import schemas
from ..gen import steps as gs
from ..gen.docs import docgen
from ..ref import plain as P
from ..ref.stepmap import RefMap

ID = "C03"
RULE = (
    "zoo schemas (histories) and zoo + random schemas (primitive steps); valid document; either a history of 1-3 Transform operations "
    "(all 19 operation kinds, arguments steered to be accepted 70% of the time) - every step it records is checked against the document "
    "before and after it - or one primitive step (genuine / perturbed / random) that applies. Non-trivial = the map has >=1 range and >=1 "
    "old token lies after it; two-range (ReplaceAround) maps are labelled. Distinct by (schema, document before, step)."
)
ASSUMPTIONS = [
    "steps have well-formed geometry (from <= gapFrom <= gapTo <= to, 0 <= insert <= slice size, from <= to): a ReplaceAroundStep whose gap lies outside its range applies in the library (as upstream) but reports a range of negative length; such hand-made steps are outside the domain",
    "a close token is compared by kind only (after a join the closing token belongs to the node that was opened on the left); open, leaf and "
    "character tokens are compared with full markup for replace-type steps and by (kind, type, character) for mark/attribute steps, which "
    "report the empty map but legitimately change markup",
]
LEVEL_TEXT = (
    "Generated-input search over every step recorded by every high-level operation and over primitive steps: for each applied step the "
    "reported map is checked against the before/after token sequences - size delta equals the sum over ranges and every old token outside "
    "the ranges is found at its mapped position - for ALL old tokens of the document. Sampling over documents/steps, complete over tokens."
)
LEVEL_NOTE = "Trusted: flat token model (pmverif/ref/plain.py) and RefMap reading of the stored ranges."
TECHNIQUE = "property-based testing (Hypothesis operation histories) with a token-correspondence oracle over all positions"
BUDGET = {
    "quick": {"shards": 8, "examples": 1400},
    "thorough": {"shards": 16, "examples": 15000},
}

ZOO_NAMES = schemas.GROUP_V + schemas.GROUP_X + schemas.MARK_VARIANTS
OPS = [k for k in go.ALL_OPS if k != "step"]


def generate(R: Draw, tier: str) -> dict:
    if R.bool(0.7):
        sref = R.choice(ZOO_NAMES)
        lib, rs = schemas.get(sref)
        g = docgen(rs)
        doc = g.doc(R, R.weighted([("small", 5), ("medium", 2)]))
        node = P.build(lib, doc)
        ops = []
        cur = node
        for _ in range(R.int(1, 3)):
            kinds = OPS if R.bool(0.5) else ["wrap", "lift", "split", "join", "set_block_type", "set_node_markup", "replace", "replace_range", "delete_range"]
            op = go.gen_op(R, g, lib, cur, kinds)
            ops.append(op)
            tr, st = go.run_history(lib, cur, [op])
            if st and st[0] in ("hang",) or st[0].startswith("crash"):
                break
            cur = tr.doc
        return {"schema": sref, "doc": doc, "ops": ops}
    sref = schemas.pick_schema(R, ZOO_NAMES, p_random=0.5)
    lib, rs = schemas.get(sref)
    g = docgen(rs)
    doc = g.doc(R, "small")
    n = P.size_of(doc["c"], rs.leaf_types)
    how = R.weighted([("genuine", 3), ("perturbed", 3), ("random", 3), ("sibling-gap", 2), ("inline-gap", 2)])
    desc = None
    if how == "sibling-gap":
        # hand-made around-step whose gap is not a flat range: must be refused, or if applied be mapped faithfully
        desc = gs.sibling_gap_step(R, g, doc)
    elif how == "inline-gap":
        # hand-made around-step inside a textblock: inline content kept, the characters around it replaced by text
        desc = gs.inline_gap_step(R, g, doc)
    elif how != "random":
        node = P.build(lib, doc)
        op = go.gen_op(R, g, lib, node, OPS, steer=0.9)
        tr, _ = go.run_history(lib, node, [op])
        if tr.steps:
            i = R.int(0, len(tr.steps) - 1)
            desc = gs.describe_step(tr.steps[i])
            doc = P.plain(tr.docs[i])
            if how == "perturbed":
                desc = gs.perturb_step(R, g, desc, P.size_of(doc["c"], rs.leaf_types))
    if desc is None:
        desc = gs.random_step(R, g, doc, n)
    return {"schema": sref, "doc": doc, "step": desc}


def _weak(tok: tuple) -> tuple:
    if tok[0] == "char":
        return ("char", tok[1])
    if tok[0] == "close":
        return ("close",)
    return tok[:2]


def _strong(tok: tuple) -> tuple:
    if tok[0] == "close":
        return ("close",)
    return tok


def _well_formed(step) -> bool:  # noqa: ANN001
    """from <= gapFrom <= gapTo <= to, 0 <= insert <= slice size: the constructor's implicit precondition (every caller
    in the library and every documented use respects it; apply() does not re-check it, upstream neither)."""
    kind = type(step).__name__
    if kind == "ReplaceAroundStep":
        return step.from_ <= step.gap_from <= step.gap_to <= step.to and 0 <= step.insert <= step.slice.size
    if kind in ("ReplaceStep", "AddMarkStep", "RemoveMarkStep"):
        return step.from_ <= step.to
    return True


def check_step(rs, ctx: Ctx, step, before_p: dict, after_p: dict, lib_map=None, tag: str = "") -> None:  # noqa: ANN001
    if not _well_formed(step):
        ctx.label("skipped:malformed-step-geometry")
        return
    if type(step).__name__ == "ReplaceAroundStep":
        ctx.label(f"around:open={min(step.slice.open_start, 2)},{min(step.slice.open_end, 2)}")
    lt = rs.leaf_types
    T0 = P.tokens_of(before_p["c"], lt)
    T1 = P.tokens_of(after_p["c"], lt)
    m = call("get_map", step.get_map)
    require(m.ok, "get_map:raised", repr(m.exc))
    sm = m.value
    kind = type(step).__name__
    replace_type = kind in ("ReplaceStep", "ReplaceAroundStep")
    ref = RefMap.from_stored(list(sm.ranges), sm.inverted)
    seen: list = []
    fe = call("for_each", sm.for_each, lambda a, b, c, d: seen.append((a, b, c, d)))
    require(fe.ok, "for_each:raised", repr(fe.exc))
    require(seen == ref.for_each(), "for_each:disagrees-with-ranges", f"{tag}{kind} map {sm}: for_each {seen} vs ranges {ref.for_each()}")
    delta = sum((d - c) - (b - a) for a, b, c, d in seen)
    require(
        len(T1) - len(T0) == delta,
        "map:size-delta",
        f"{tag}{kind} map {sm}: document size changed by {len(T1) - len(T0)}, ranges say {delta}",
    )
    covered = [False] * len(T0)
    for a, b, _c, _d in seen:
        require(0 <= a <= b <= len(T0), "map:range-outside-document", f"{tag}{kind} map {sm} on a document of {len(T0)} tokens")
        for t in range(a, b):
            covered[t] = True
    cmp = _strong if replace_type else _weak
    for t in range(len(T0)):
        if covered[t]:
            continue
        p1 = call("map", sm.map, t, 1)
        p2 = call("map", sm.map, t + 1, -1)
        require(p1.ok and p2.ok, "map:raised", f"{tag}map({t}) raised")
        sub = {"mode": "step-map", "ranges": list(sm.ranges), "inverted": bool(sm.inverted), "token": t}
        if p2.value != p1.value + 1:
            fail_unless_known(ctx, ID, "map:cell-not-preserved", sub, f"{tag}{kind} map {sm}: token {t} maps to [{p1.value},{p2.value})")
            continue
        if not (0 <= p1.value < len(T1) and cmp(T1[p1.value]) == cmp(T0[t])):
            fail_unless_known(
                ctx,
                ID,
                "map:token-moved-wrongly",
                sub,
                f"{tag}{kind} map {sm}: old token {t} {T0[t][:2]} maps to {p1.value} where the new document has "
                f"{T1[p1.value][:2] if 0 <= p1.value < len(T1) else None}",
            )
    if lib_map is not None:
        other = RefMap.from_stored(list(lib_map.ranges), lib_map.inverted)
        require(other.triples == ref.triples, "mapping:map-differs-from-step-map", f"{tag}transform.mapping map {lib_map} vs step map {sm}")
    ctx.label("step:" + kind)
    nranges = len(ref.triples)
    if nranges == 2:
        ctx.label("map:two-ranges")
    if nranges and any(not c for c in covered[ref.triples[-1][0] + ref.triples[-1][1] :]):
        ctx.nontrivial([before_p, gs.describe_step(step)])


def check(case: dict, ctx: Ctx) -> None:
    from prosemirror.transform import Transform

    lib, rs = schemas.get(case["schema"])
    doc = P.build(lib, case["doc"])
    if "step" in case:
        step = gs.build_step(lib, case["step"])
        r = call("apply", step.apply, doc, reject=(Exception,))
        if not r.ok or r.value.failed:
            ctx.label("primitive:not-applicable")
            return
        ctx.label("primitive:applied")
        check_step(rs, ctx, step, case["doc"], P.plain(r.value.doc))
        return
    tr = Transform(doc)
    for op in case["ops"]:
        try:
            with time_limit(5.0):
                go.apply_op(tr, lib, op)
            ctx.label("op:ok:" + op["op"])
        except ValueError:
            ctx.label("op:rejected")
        except (Exception, Hang):  # noqa: BLE001  crashes of operations are judged by C11/C12, not here
            ctx.label("op:crashed-elsewhere")
            break
    n = len(tr.steps)
    require(len(tr.docs) == n and len(tr.mapping.maps) == n, "transform:misaligned", f"{n} steps, {len(tr.docs)} docs, {len(tr.mapping.maps)} maps")
    for i in range(n):
        before = P.plain(tr.docs[i])
        after = P.plain(tr.docs[i + 1] if i + 1 < n else tr.doc)
        check_step(rs, ctx, tr.steps[i], before, after, tr.mapping.maps[i], tag=f"step {i} of {[o['op'] for o in case['ops']]}: ")
    ctx.evaluations += max(0, n - 1)
