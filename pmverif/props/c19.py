"""C19 — HTML import is total and schema-valid; export then import is the identity."""
from __future__ import annotations

import copy
import re

from ..core import Ctx, call, fail_unless_known, require
from ..draw import Draw
from ..gen import html as gh
from ..gen.docs import docgen
from ..ref import plain as P
from ..ref import validate as V
from ..ref.schema import RefSchema

ID = "C19"
RULE = (
    "import: HTML fragments from a grammar over block / inline / list / table / unknown / ignorable tags with arbitrary (also ill-formed) "
    "nesting, optional attributes (href src alt title start), style attributes (matching, unrelated, malformed), whitespace runs, entities "
    "and non-BMP text, parsed with the bundled basic and list schemas; schema-conformant fragments parsed with a schema whose rules carry "
    "context expressions ('a/', 'a/b/', 'doc//a/', 'a|b', group names). export: valid documents of the bundled schemas (any attributes) must "
    "serialise; whitespace-normal documents with characters that need escaping must survive serialise -> parse. Non-trivial = an import that "
    "had to wrap, fill, drop or re-parent something (the result is not the naive tag->node mapping), or in which a context rule was consulted; "
    "a round trip with >=2 differently marked adjacent inline nodes, a code block with inner whitespace, or an escaped character. Distinct by input."
)
ASSUMPTIONS = [
    "an HTML string that lxml itself refuses to parse is discarded (counted)",
    "HTML comments and skip/contentElement/getContent rules are outside the statement's vocabulary",
    "round-trip domain: non-code textblocks contain only U+0020 as whitespace, no leading/trailing/double spaces, none next to a hard_break; "
    "image alt, link title, list order and doc attributes at the values the bundled parse rules can carry",
]
LEVEL_TEXT = (
    "Grammar-based fuzzing of the HTML importer (termination through a time budget, no exception, reference-valid result, context rules "
    "against a reference matcher over the chain of open ancestors) and property-based round-trip testing of export -> import on generated "
    "whitespace-normal documents. Sampling of an unbounded input language."
)
LEVEL_NOTE = "Trusted: lxml as the HTML tokenizer/tree builder (the library depends on it too), reference validator, reference context matcher."
TECHNIQUE = "grammar-based fuzzing + property-based round-trip testing (Hypothesis) with reference validity / context oracles"
BUDGET = {
    "quick": {"shards": 8, "examples": 2000},
    "thorough": {"shards": 16, "examples": 12000},
}

_schemas: dict = {}


def bundled(name: str):  # noqa: ANN201
    """(library schema with parse/serialise rules, RefSchema) for 'basic' | 'list' | 'context'."""
    if name not in _schemas:
        from prosemirror.model import Schema
        from prosemirror.schema.basic import schema as basic_schema
        from prosemirror.test_builder import test_schema

        if name == "basic":
            lib = basic_schema
        elif name == "list":
            lib = test_schema
        else:
            nodes = dict(test_schema.spec["nodes"])
            nodes["doc"] = {"content": "block+"}
            nodes["list_item"] = {**nodes["list_item"], "content": "block+"}
            p_dom = ["p", 0]
            extra = {
                "qpara": {"content": "inline*", "group": "block", "parseDOM": [{"tag": "p", "context": "blockquote/", "priority": 60}], "toDOM": lambda _: p_dom},
                "lipara": {"content": "inline*", "group": "block", "parseDOM": [{"tag": "p", "context": "doc//list_item/", "priority": 70}], "toDOM": lambda _: p_dom},
                "deep": {"content": "inline*", "group": "block", "parseDOM": [{"tag": "p", "context": "blockquote/blockquote/", "priority": 80}], "toDOM": lambda _: p_dom},
                "either": {"content": "inline*", "group": "block", "parseDOM": [{"tag": "p", "context": "ordered_list/list_item/|blockquote/bullet_list/list_item/", "priority": 90}], "toDOM": lambda _: p_dom},
                "grp": {"content": "inline*", "group": "block", "parseDOM": [{"tag": "p", "context": "listy/list_item/blockquote/", "priority": 95}], "toDOM": lambda _: p_dom},
            }
            nodes.update(extra)
            nodes["bullet_list"] = {**nodes["bullet_list"], "group": "block listy"}
            nodes["ordered_list"] = {**nodes["ordered_list"], "group": "block listy"}
            lib = Schema({"nodes": nodes, "marks": test_schema.spec["marks"]})
        _schemas[name] = (lib, RefSchema(_plain_spec(lib.spec)))
    return _schemas[name]


def _plain_spec(spec: dict) -> dict:
    keep = ("content", "marks", "group", "inline", "attrs", "code", "isolating", "defining", "excludes", "inclusive")
    return {
        "nodes": {n: {k: copy.deepcopy(v) for k, v in s.items() if k in keep} for n, s in spec["nodes"].items()},
        "marks": {n: {k: copy.deepcopy(v) for k, v in s.items() if k in keep} for n, s in (spec.get("marks") or {}).items()},
    }


CONTEXT_RULES = [
    # (priority order) node type, alternatives; each alternative is a list of parts, "" = any number of ancestors
    ("grp", [["@listy", "list_item", "blockquote"]]),
    ("either", [["ordered_list", "list_item"], ["blockquote", "bullet_list", "list_item"]]),
    ("deep", [["blockquote", "blockquote"]]),
    ("lipara", [["doc", "", "list_item"]]),
    ("qpara", [["blockquote"]]),
]


def ref_context_match(rs: RefSchema, chain: list[str], parts: list[str]) -> bool:
    """chain = open ancestors, outermost first (starting with doc); parts matched against its END."""

    def name_ok(part: str, t: str) -> bool:
        if part.startswith("@"):
            return part[1:] in rs.groups[t]
        return part == t

    def m(i: int, d: int) -> bool:
        # parts[:i+1] must match chain ending at index d
        while i >= 0:
            if parts[i] == "":
                return any(m(i - 1, dd) for dd in range(d, -2, -1))
            if d < 0 or not name_ok(parts[i], chain[d]):
                return False
            i -= 1
            d -= 1
        return True

    return m(len(parts) - 1, len(chain) - 1)


def expected_p_types(rs: RefSchema, html: str) -> list[str]:
    """Node type each <p> of a schema-conformant fragment must get, in document order."""
    import lxml.html

    root = lxml.html.fragment_fromstring(html, create_parent="div")
    out: list[str] = []
    tagmap = {"blockquote": "blockquote", "ul": "bullet_list", "ol": "ordered_list", "li": "list_item"}

    def walk(el, chain: list[str]) -> None:  # noqa: ANN001
        for ch in el:
            if ch.tag == "p":
                typ = "paragraph"
                for name, alts in CONTEXT_RULES:
                    if any(ref_context_match(rs, chain, parts) for parts in alts):
                        typ = name
                        break
                out.append(typ)
            elif ch.tag in tagmap:
                walk(ch, chain + [tagmap[ch.tag]])

    walk(root, ["doc"])
    return out


def generate(R: Draw, tier: str) -> dict:
    kind = R.weighted([("import", 6), ("context", 2), ("roundtrip", 5), ("export", 1)])
    if kind == "import":
        return {"kind": kind, "schema": R.choice(["basic", "list"]), "html": gh.fragment(R)}
    if kind == "context":
        return {"kind": kind, "schema": "context", "html": gh.context_fragment(R)}
    name = R.choice(["basic", "list"])
    lib, rs = bundled(name)
    g = docgen(rs)
    doc = g.doc(R, R.weighted([("small", 5), ("medium", 2)]))
    if kind == "export":
        return {"kind": kind, "schema": name, "doc": doc}
    doc = gh.add_code_whitespace(R, rs, doc)
    doc = gh.sprinkle_specials(R, rs, doc)
    doc = gh.lead_spaces(R, rs, doc)
    doc = gh.ws_normalize(rs, doc)
    return {"kind": kind, "schema": name, "doc": doc}


def _textblocks(p: dict, rs) -> list:  # noqa: ANN001
    out = []
    if rs.textblock.get(p["t"]) and not rs.nodes[p["t"]].get("code"):
        out.append(p["c"])
    for c in p["c"]:
        out.extend(_textblocks(c, rs))
    return out


def _naive(html: str) -> bool:
    """Very rough: the fragment is a plain sequence of <p>text</p>."""
    return re.fullmatch(r"(<p>[^<&\s]+</p>)+", html) is not None


def check(case: dict, ctx: Ctx) -> None:
    from prosemirror.model import DOMSerializer, Node
    from prosemirror.model.from_dom import from_html

    lib, rs = bundled(case["schema"])
    kind = case["kind"]
    ctx.label("kind:" + kind)
    if kind in ("import", "context"):
        html = case["html"]
        import lxml.etree
        import lxml.html

        try:
            lxml.html.fragment_fromstring(html, create_parent="document-fragment")
        except (lxml.etree.LxmlError, ValueError, TypeError):
            ctx.label("discarded:lxml-refuses")
            return
        sub = {"mode": "c19", "schema": case["schema"], "html": html}
        o = call("from_html", from_html, lib, html, reject=())
        j = o.value
        n = call("from_json", Node.from_json, lib, j)
        require(n.ok, "import:not-a-document", f"from_html result cannot be read back: {n.exc!r}")
        got = P.plain(n.value)
        probs = V.node_problems(rs, got)
        if probs:
            fail_unless_known(ctx, ID, "import:invalid-document", sub, f"from_html({html!r}) gave an invalid document: {probs[0]}")
            return
        if kind == "context":
            exp = expected_p_types(rs, html)
            para_like = {"paragraph", "qpara", "lipara", "deep", "either", "grp"}
            seen = [t[1] for t in P.tokens_of(got["c"], rs.leaf_types) if t[0] == "open" and t[1] in para_like]
            require(seen == exp, "context:wrong-rule", f"{html!r}: paragraph-like nodes {seen}, context expressions say {exp}")
            if any(t != "paragraph" for t in exp):
                ctx.label("context:rule-applied")
            ctx.nontrivial(["context", html])
        else:
            if not _naive(html):
                ctx.nontrivial(["import", case["schema"], html])
            if "style=" in html:
                ctx.label("import:style-attr")
            if "<ul></ul>" in html or "<ol></ol>" in html or re.search(r"<[uo]l[^>]*></[uo]l>", html):
                ctx.label("import:empty-list")
        return
    # ---- export
    doc_p = case["doc"]
    assert not V.node_problems(rs, doc_p), V.node_problems(rs, doc_p)[:1]
    doc = P.build(lib, doc_p)
    ser = DOMSerializer.from_schema(lib)
    o = call("serialize", lambda: str(ser.serialize_fragment(doc.content)))
    require(o.ok, "export:raised", f"serialize_fragment raised {o.exc!r}")
    html = o.value
    for i, child in enumerate(doc.content.content[:2]):
        o2 = call("serialize_node", lambda child=child: str(ser.serialize_node(child)))
        require(o2.ok, "export:raised", f"serialize_node(child {i}) raised {o2.exc!r}")
    if kind == "export":
        ctx.label("export:any-attrs")
        return
    sub = {"mode": "c19", "schema": case["schema"], "doc": doc_p}
    o = call("from_html", from_html, lib, html, reject=())
    n = call("from_json", Node.from_json, lib, o.value)
    require(n.ok, "roundtrip:not-a-document", repr(n.exc))
    got = P.plain(n.value)
    if got != doc_p:
        fail_unless_known(ctx, ID, "roundtrip:differs", sub, f"serialised {html!r} parses back to {got['c']}, original {doc_p['c']}")
        return
    toks = P.tokens_of(doc_p["c"], rs.leaf_types)
    nt = False
    for a, b in zip(toks, toks[1:]):
        if a[0] in ("char", "leaf") and b[0] in ("char", "leaf") and a[-1] != b[-1]:
            ctx.label("roundtrip:mark-boundary")
            nt = True
            break
    runs = [c for c in _textblocks(doc_p, rs)]
    if any(
        a["t"] == "text" and b["t"] == "text" and c_["t"] == "text" and b["x"].startswith(" ") and c_["x"].startswith(" ")
        for kids in runs
        for a, b, c_ in zip(kids, kids[1:], kids[2:])
    ):
        ctx.label("roundtrip:consecutive-leading-spaces")
        nt = True
    if any(ch in html for ch in ("&lt;", "&amp;", "&quot;", "&#x27;", "&gt;")):
        ctx.label("roundtrip:escaped")
        nt = True
    if re.search(r"<pre><code>[^<]*[ \n][^<]*</code>", html):
        ctx.label("roundtrip:code-whitespace")
        nt = True
    if nt:
        ctx.nontrivial(["roundtrip", case["schema"], doc_p])
