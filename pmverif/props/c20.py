"""C20 — document diffing terminates and reports the true first/last difference.

Oracle: flat tokens annotated with markup (open/close/leaf carry type+attrs+marks, one token per
UTF-16 unit carrying the text marks).  find_diff_start == None <=> token lists equal, else the
common-prefix length; find_diff_end == None <=> equal, else (len(a)-k, len(b)-k), k = common suffix.
"""
from __future__ import annotations

from ..core import Ctx, Violation, call, require
from ..draw import Draw
from ..gen import mutate as mu
from ..gen import schemas
from ..gen.docs import docgen
from ..ref import plain as P

ID = "C20"
RULE = (
    "pairs of fragments: (document, locally mutated copy sharing untouched sub-trees by object identity), "
    "(document, result of Node.replace on it), (document, independently rebuilt equal copy), (two independent "
    "documents); schemas from the zoo and random well-founded schemas; text over ASCII + astral characters. "
    "Non-trivial = the pair differs and shares >=1 child object by identity, or differs inside a text node that "
    "contains a non-BMP character, or is an equal pair built without sharing; distinct by hash of both trees."
)
ASSUMPTIONS = [
    "documents are in normal form (adjacent equal-marked text merged), as every library constructor path produces",
    "a call that exceeds 5 s (retried once with 20 s) on a < 200-token input is a hang",
]
LEVEL_TEXT = (
    "Generated-input search: thousands of fragment pairs per run (edited copies sharing sub-trees by identity, "
    "independently rebuilt equal copies, unrelated documents, astral text) compared against the common prefix/suffix "
    "of markup-annotated flat token sequences; termination observed through a per-call time budget. Sampling, so "
    "absence of a counterexample is not a proof."
)
LEVEL_NOTE = (
    "Trusted: the token model in pmverif/ref/plain.py (one token per UTF-16 unit, open/close tokens carrying type, "
    "attrs and marks) as the meaning of 'flat token sequence'; a call exceeding 5 s (20 s on retry) on inputs under "
    "200 tokens counts as non-termination."
)
TECHNIQUE = "property-based testing (Hypothesis) against a flat-token reference model; shrunk JSON replays"
BUDGET = {
    "quick": {"shards": 8, "examples": 2500},
    "thorough": {"shards": 16, "examples": 40000},
}
FLOORS = {"pair:shared-differs": (4000, 100000), "astral-text-differs": (300, 8000)}

ZOO_NAMES = schemas.GROUP_V + schemas.GROUP_X + schemas.MARK_VARIANTS


_STRUCTURED_PAIRS = [
    ([], ["w"]),
    (["w"], ["w", "d"]),
    (["w", "d"], ["w", "d"]),
    ({"k": []}, {"k": ["w"]}),
    ({"k": 1}, {"k": 1, "j": 2}),
    ([1, [2]], [1, [2, 3]]),
    ({"k": {"j": [1]}}, {"k": {"j": [1]}}),
    ("", []),
    (0, ""),
    ([0], [0, 0]),
]


def generate(R: Draw, tier: str) -> dict:
    sref = schemas.pick_schema(R, ZOO_NAMES, p_random=0.25)
    lib, rs = schemas.get(sref)
    g = docgen(rs)
    a = g.doc(R, R.weighted([("tiny", 2), ("small", 5), ("medium", 2)]))
    kind = R.weighted([("mutate", 6), ("rebuild", 1), ("independent", 1), ("replace", 2), ("structured-attr", 2)])
    if kind == "structured-attr":
        # two versions of one node whose attributes differ only inside a list / dict value (one a prefix or a subset
        # of the other, equal copies, nested), optionally with a further change inside the node
        import copy

        cand = [p for p in mu.paths(a) if p and mu.get_at(a, p)["t"] != "text" and rs.nodes[mu.get_at(a, p)["t"]].get("attrs")]
        kind = "mutate"
        if cand:
            path = R.choice(cand)
            name = R.choice(sorted(rs.nodes[mu.get_at(a, path)["t"]]["attrs"]))
            v1, v2 = R.choice(_STRUCTURED_PAIRS)
            if R.bool():
                v1, v2 = v2, v1
            a = mu.replace_at(a, path, lambda n: {**n, "a": {**n["a"], name: copy.deepcopy(v1)}})
            b = mu.replace_at(a, path, lambda n: {**n, "a": {**n["a"], name: copy.deepcopy(v2)}})
            if R.bool(0.5):
                b = mu.mutate(R, g, b)
            return {"schema": sref, "a": a, "kind": "mutate", "b": b, "structured": True}
    case = {"schema": sref, "a": a, "kind": kind, "shared_marks": R.bool(0.5)}
    if kind == "mutate":
        b = a
        for _ in range(R.weighted([(1, 6), (2, 2), (3, 1)])):
            b = mu.mutate(R, g, b)
        case["b"] = b
    elif kind == "independent":
        case["b"] = g.doc(R, "small")
    elif kind == "replace":
        src = g.doc(R, "small")
        n = P.size_of(a["c"], rs.leaf_types)
        m = P.size_of(src["c"], rs.leaf_types)
        f = R.int(0, n)
        t = R.int(f, min(n, f + R.int(0, 6)))
        sf = R.int(0, m)
        st_ = R.int(sf, min(m, sf + R.int(0, 8)))
        case["replace"] = {"from": f, "to": t, "src": src, "sfrom": sf, "sto": st_}
    return case


def _common_prefix(x: list, y: list) -> int:
    k = 0
    n = min(len(x), len(y))
    while k < n and x[k] == y[k]:
        k += 1
    return k


def _astral_involved(ta: list, tb: list, k: int) -> bool:
    for toks in (ta, tb):
        for j in (k - 1, k, k + 1):
            if 0 <= j < len(toks) and toks[j][0] == "char" and 0xD800 <= toks[j][1] < 0xE000:
                return True
    return False


def check(case: dict, ctx: Ctx) -> None:
    lib, rs = schemas.get(case["schema"])
    if case.get("structured"):
        ctx.label("attrs:structured-values")
    a_plain = case["a"]
    # one side may carry the shared all-defaults mark instances (what schema.mark(name) hands out), the other side
    # always separately constructed, equal marks
    a = P.build(lib, a_plain, shared_marks=bool(case.get("shared_marks")))
    if case.get("shared_marks"):
        ctx.label("marks:shared-default-instances-on-one-side")
    kind = case["kind"]
    if kind == "mutate":
        b_plain = case["b"]
        b = mu.build_shared(lib, b_plain, a_plain, a)
    elif kind == "rebuild":
        b_plain = a_plain
        b = P.build(lib, a_plain)
    elif kind == "independent":
        b_plain = case["b"]
        b = P.build(lib, b_plain)
    else:
        rp = case["replace"]
        src = P.build(lib, rp["src"])
        o = call("setup", lambda: a.replace(rp["from"], rp["to"], src.slice(rp["sfrom"], rp["sto"])))
        if not o.ok:
            ctx.label("replace-rejected")
            return
        b = o.value
        b_plain = P.plain(b)
    ta = P.tokens_of(a_plain["c"], rs.leaf_types)
    tb = P.tokens_of(b_plain["c"], rs.leaf_types)
    equal = ta == tb
    shared = mu.shared_count(a, b)
    ctx.label(f"pair:{kind}")
    if not equal and shared:
        ctx.label("pair:shared-differs")
    for (x, y, tx, ty, tag) in ((a, b, ta, tb, "ab"), (b, a, tb, ta, "ba")):
        pre = _common_prefix(tx, ty)
        suf = _common_prefix(tx[::-1], ty[::-1])
        exp_start = None if equal else pre
        exp_end = None if equal else (len(tx) - suf, len(ty) - suf)
        o = call("diff-start", x.content.find_diff_start, y.content)
        require(o.ok, "diff-start:raised", f"{type(o.exc).__name__}: {o.exc}")
        require(
            o.value == exp_start,
            "diff-start:wrong",
            f"find_diff_start={o.value!r}, token prefix says {exp_start!r} ({tag})",
        )
        o = call("diff-end", x.content.find_diff_end, y.content)
        require(o.ok, "diff-end:raised", f"{type(o.exc).__name__}: {o.exc}")
        got = None if o.value is None else (o.value["a"], o.value["b"])
        require(got == exp_end, "diff-end:wrong", f"find_diff_end={got!r}, token suffix says {exp_end!r} ({tag})")
    astral = (not equal) and (_astral_involved(ta, tb, _common_prefix(ta, tb)) or _astral_involved(
        ta[::-1], tb[::-1], _common_prefix(ta[::-1], tb[::-1])))
    if astral:
        ctx.label("astral-text-differs")
    if equal:
        ctx.label("equal")
    if (not equal and shared) or astral or (equal and kind == "rebuild"):
        ctx.nontrivial([a_plain, b_plain])
