"""C11 — replace-family edits always succeed, stay valid and keep surrounding content."""
from __future__ import annotations

import functools

from ..core import Ctx, call, fail_unless_known, require
from ..draw import Draw
from ..gen import ops as go
from ..gen import schemas
from ..gen.docs import docgen
from ..ref import plain as P
from ..ref import splice as S
from ..ref import validate as V

ID = "C11"
RULE = (
    "schema: group V (totality, validity, preservation) or group X / random well-founded (validity and preservation only); valid document; "
    "in-range from <= to; a slice of any open depth cut from another generated document, or whole nodes / a fragment; one of replace, "
    "replace_with, insert, delete, replace_range, replace_range_with, delete_range, or replace_step applied as a step. Non-trivial = the "
    "edit could not be done as a plain ReplaceStep of the given slice (the fitter restructured: the recorded step differs from the request, "
    "or a ReplaceAround step was produced), or the range crosses a depth change; distinct by (schema, document, operation)."
)
ASSUMPTIONS = [
    "mid-surrogate policy: when from/to split a surrogate pair a ValueError-family exception is acceptable",
    "filler = a non-text leaf or an empty/minimal node of a generatable type with default attributes and no marks; the statement allows "
    "padding with such nodes",
    "on group X and random schemas exceptions are tallied but only results that are returned are judged (as the quantifier says)",
]
LEVEL_TEXT = (
    "Generated-input search over (document, range, slice, operation): on the bundled-style schemas any exception is a violation (totality, "
    "with non-termination observed through a time budget); every returned document is validated by the reference validator and its leaf/"
    "character sequence is compared with before ++ (subsequence of the slice, modulo fillers) ++ after. Sampling."
)
LEVEL_NOTE = "Trusted: reference validator, flat tokens; subsequence decided by dynamic programming; 5 s (20 s retry) time budget for termination."
TECHNIQUE = "property-based testing (Hypothesis) with totality, reference validity and leaf-sequence preservation oracles"
BUDGET = {
    "quick": {"shards": 8, "examples": 1500, "wall_s": 300},
    "thorough": {"shards": 16, "examples": 25000},
}

KINDS = go.REPLACE_FAMILY + ["replace_step"]


def generate(R: Draw, tier: str) -> dict:
    grp = R.weighted([("V", 7), ("X", 1), ("R", 2)])
    if grp == "V":
        sref = R.choice(schemas.GROUP_V)
    elif grp == "X":
        sref = R.choice(schemas.GROUP_X)
    else:
        sref = schemas.random_schema(R) or R.choice(schemas.GROUP_V)
        if isinstance(sref, str):
            grp = "V"
    lib, rs = schemas.get(sref)
    g = docgen(rs)
    if R.bool(0.006):
        # dense case: EVERY slice (with and without include_parents) of a small source document is pasted at
        # EVERY position of a small target document
        return {"schema": sref, "group": grp, "dense": True, "doc": g.doc(R, "tiny"), "src": g.doc(R, R.choice(["tiny", "small"]))}
    doc = g.doc(R, R.weighted([("small", 5), ("medium", 3)]))
    node = P.build(lib, doc)
    kind = R.choice(KINDS)
    op = go.gen_op(R, g, lib, node, ["replace" if kind == "replace_step" else kind])
    if kind == "replace_step":
        op["op"] = "replace_step"
    return {"schema": sref, "group": grp, "doc": doc, "op": op}


def _payload_leafseq(rs, op: dict) -> list:  # noqa: ANN001
    lt = rs.leaf_types
    if "slice" in op:
        return P.leafseq(P.tokens_of(op["slice"]["c"], lt))
    if "content" in op:
        return P.leafseq(P.tokens_of(op["content"], lt))
    if "node" in op:
        return P.leafseq(P.tokens_of([op["node"]], lt))
    return []


def _is_filler(rs, tok: tuple) -> bool:  # noqa: ANN001
    if tok[0] != "leaf":
        return False
    t = tok[1]
    return rs.generatable[t] and tok[2] == P.jkey(rs.default_attrs("node", t)) and tok[3] == ()


def _sub_ok(src: tuple, got: tuple) -> bool:
    """got token may come from src token: same kind/char/type/attrs, marks a sub-list of the source's marks."""
    if src[0] != got[0] or src[1] != got[1]:
        return False
    if src[0] == "leaf" and src[2] != got[2]:
        return False
    sm = src[-1]
    gm = got[-1]
    it = iter(sm)
    return all(any(x == y for y in it) for x in gm)


def middle_ok(rs, M: list, src: list) -> bool:  # noqa: ANN001
    """M minus fillers is an in-order subsequence of src (marks may only be lost). DP over (i, j)."""

    @functools.lru_cache(maxsize=None)
    def go_(i: int, j: int) -> bool:
        if i == len(M):
            return True
        if _is_filler(rs, M[i]) and go_(i + 1, j):
            return True
        for k in range(j, len(src)):
            if _sub_ok(src[k], M[i]) and go_(i + 1, k + 1):
                return True
        return False

    import sys

    if len(M) + len(src) > 400:
        sys.setrecursionlimit(max(sys.getrecursionlimit(), 3000))
    return go_(0, 0)


def frame_ok(rs, L1: list, B: list, src: list, A: list, deleting: bool) -> str | None:  # noqa: ANN001
    """L1 must read: B exactly, then tokens taken in order from src (marks may only be lost), then A exactly -
    with schema-required filler leaves allowed anywhere. Decided by DP over three phases. None = ok."""
    import sys

    sys.setrecursionlimit(max(sys.getrecursionlimit(), 4000))
    n = len(L1)

    @functools.lru_cache(maxsize=None)
    def ph2(i: int, a: int) -> bool:
        if i == n:
            return a == len(A)
        if a < len(A) and L1[i] == A[a] and ph2(i + 1, a + 1):
            return True
        return _is_filler(rs, L1[i]) and ph2(i + 1, a)

    @functools.lru_cache(maxsize=None)
    def ph1(i: int, s_: int) -> bool:
        if ph2(i, 0):
            return True
        if i == n:
            return False
        if _is_filler(rs, L1[i]) and ph1(i + 1, s_):
            return True
        if deleting:
            return False
        for k_ in range(s_, len(src)):
            if _sub_ok(src[k_], L1[i]) and ph1(i + 1, k_ + 1):
                return True
        return False

    @functools.lru_cache(maxsize=None)
    def ph0(i: int, b: int) -> bool:
        if b == len(B) and ph1(i, 0):
            return True
        if i == n:
            return False
        if b < len(B) and L1[i] == B[b] and ph0(i + 1, b + 1):
            return True
        return _is_filler(rs, L1[i]) and ph0(i + 1, b)

    if ph0(0, 0):
        return None
    # diagnose: are the surroundings at least there (as subsequences, in order)?
    it = iter(L1)
    if not all(any(x == y for y in it) for x in B + A):
        return "surroundings: text/leaf nodes outside the range are missing or modified"
    return "the content between the preserved surroundings is not an in-order subsequence of the slice (modulo fillers)"


def check_dense(case: dict, ctx: Ctx) -> None:
    lib, rs = schemas.get(case["schema"])
    lt = rs.leaf_types
    TS = P.tokens_of(case["src"]["c"], lt)
    n = P.size_of(case["doc"]["c"], lt)
    ns = len(TS)
    if ns > 26 or n > 30:
        ctx.label("dense:too-large-skipped")
        return
    sub_n = 0
    seen = set()
    for a in range(ns + 1):
        for b in range(a + 1, ns + 1):
            for inc in (False, True):
                sl = S.ref_slice(TS, a, b, include_parents=inc)
                if sl is None:
                    continue
                key = P.jkey(sl)
                if key in seen:
                    continue
                seen.add(key)
                for f in range(n + 1):
                    for t in {f, min(n, f + 2)}:
                        sub_n += 1
                        check_one({**case, "op": {"op": "replace", "from": f, "to": t, "slice": sl}}, ctx, quiet=True)
    ctx.label("dense")
    ctx.evaluations += sub_n


def check(case: dict, ctx: Ctx) -> None:
    if not schemas.in_domain(case["schema"]):
        ctx.label("skipped:schema-not-well-founded")
        return
    if case.get("dense"):
        check_dense(case, ctx)
        return
    check_one(case, ctx)


def check_one(case: dict, ctx: Ctx, quiet: bool = False) -> None:
    from prosemirror.transform import Transform, replace_step

    lib, rs = schemas.get(case["schema"])
    doc_p = case["doc"]
    if not quiet:
        assert not V.node_problems(rs, doc_p)
    op = case["op"]
    k = op["op"]
    total = case["group"] == "V"
    lt = rs.leaf_types
    T0 = P.tokens_of(doc_p["c"], lt)
    frm = op.get("from", op.get("pos"))
    to = op.get("to", op.get("pos"))
    mid = S.splits_pair_at(T0, frm) or S.splits_pair_at(T0, to)
    doc = P.build(lib, doc_p)
    tr = Transform(doc)
    sk = case["schema"] if isinstance(case["schema"], str) else "random"
    if not quiet:
        ctx.label("op:" + k)
        ctx.label("group:" + case["group"])

    def run() -> None:
        if k == "replace_step":
            st = replace_step(doc, frm, to, P.build_slice(lib, op["slice"]))
            if st is not None:
                tr.step(st)
        else:
            go.apply_op(tr, lib, op)

    sub = {"mode": "c11", "schema": case["schema"], "doc": doc_p, "op": op}
    o = call(k, run, reject=(Exception,))
    if not o.ok:
        exc = o.exc
        if mid and isinstance(exc, ValueError):
            ctx.label("mid-surrogate:rejected")
            return
        if total:
            kind = "rejected" if isinstance(exc, ValueError) else "internal-error"
            import traceback as _tb

            where = ""
            for fr in reversed(_tb.extract_tb(exc.__traceback__)):
                if "/prosemirror/" in fr.filename:
                    where = f"{fr.filename.split('/prosemirror/', 1)[1]}:{fr.name}"
                    break
            fail_unless_known(ctx, ID, f"totality:{kind}", sub, f"{k}({frm},{to}) raised {type(exc).__name__}: {exc} (at {where})")
            return
        ctx.label("raised-outside-totality-domain:" + type(exc).__name__)
        if not isinstance(exc, ValueError):
            ctx.label("internal-error-outside-totality-domain")
        return
    got = P.plain(tr.doc)
    probs = V.node_problems(rs, got)
    if probs:
        fail_unless_known(ctx, ID, "result:invalid", sub, f"{k}({frm},{to}) returned an invalid document: {probs[0]}")
        return
    if mid:
        ctx.label("mid-surrogate:returned")
        return
    if not tr.steps:
        # the library reports "nothing changed" (no step recorded, Transform.doc_changed() is False)
        require(got == doc_p, "noop:document-changed", "no step recorded but the document differs")
        # upstream documents that fitting may find "no meaningful way to insert the slice" and then does nothing;
        # inside the totality domain that is only acceptable when there was no text/leaf in the range to remove
        if total and any(t[0] in ("char", "leaf") for t in T0[frm:to]):
            fail_unless_known(ctx, ID, "totality:not-performed", sub, f"{k}({frm},{to}) recorded no step although the range contains text/leaf nodes")
            return
        ctx.label("noop")
        return
    T1 = P.tokens_of(got["c"], lt)
    L1 = P.leafseq(T1)
    B = [t for t in T0[:frm] if t[0] in ("char", "leaf")]
    A = [t for t in T0[to:] if t[0] in ("char", "leaf")]
    src = _payload_leafseq(rs, op)
    deleting = k in ("delete", "delete_range")
    why = frame_ok(rs, L1, B, src, A, deleting)
    if why is not None:
        clause = "preserve:surroundings" if why.startswith("surroundings") else ("delete:adds-text" if deleting else "preserve:inserted")
        fail_unless_known(ctx, ID, clause, sub, f"{k}({frm},{to}): {why}; result leaves {[t[:2] for t in L1]}, before {[t[:2] for t in B]}, slice {[t[:2] for t in src]}, after {[t[:2] for t in A]}")
        return
    # non-triviality
    steps = tr.steps
    nt = False
    if any(type(s).__name__ == "ReplaceAroundStep" for s in steps):
        ctx.label("fit:replace-around")
        nt = True
    if steps and type(steps[0]).__name__ == "ReplaceStep" and "slice" in op:
        if (steps[0].from_, steps[0].to) != (frm, to) or P.plain_slice(steps[0].slice) != op["slice"]:
            ctx.label("fit:restructured")
            nt = True
    dd = S.depth_table(T0)
    if frm < to and (dd[frm] != dd[to] or min(dd[frm : to + 1]) < dd[frm]):
        ctx.label("range:crosses-depth")
        nt = True
    if not steps:
        ctx.label("no-step")
    if nt:
        ctx.nontrivial([sk, doc_p, op])
