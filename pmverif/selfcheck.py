"""Quick self-test of the reference models (run by setup.sh; not a property check)."""
from __future__ import annotations

import random


def main() -> None:
    from .draw import RandomDraw
    from .gen import schemas
    from .gen.docs import docgen
    from .ref import plain as P
    from .ref import u16, validate

    assert u16.u16len("a\U0001F600") == 3
    assert u16.from_units(u16.units("a\U0001F600é")) == "a\U0001F600é"
    assert u16.splits_pair("a\U0001F600", 2) and not u16.splits_pair("a\U0001F600", 1)
    R = RandomDraw(random.Random(7))
    n = 0
    for name in schemas.ZOO:
        lib, rs = schemas.get(name)
        g = docgen(rs)
        for _ in range(20):
            d = g.doc(R, "small")
            probs = validate.node_problems(rs, d) + validate.normal_form_problems(d)
            assert not probs, (name, probs, d)
            toks = P.tokens_of(d["c"], rs.leaf_types)
            assert P.tree_of(toks) == d["c"], (name, d)
            node = P.build(lib, d)
            assert P.plain(node) == d
            assert node.content.size == len(toks)
            n += 1
    print(f"selfcheck ok ({n} documents over {len(schemas.ZOO)} zoo schemas)")


if __name__ == "__main__":
    main()
