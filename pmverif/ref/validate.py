"""Reference validity of a plain tree under a RefSchema."""
from __future__ import annotations

from . import marks as rm
from .schema import RefSchema


def node_problems(rs: RefSchema, p: dict, path: str = "") -> list[str]:
    """Problems of node p itself (content sequence, children's marks allowed, own mark set canonical)
    and, recursively, of all descendants."""
    out: list[str] = []
    here = f"{path}/{p['t']}"
    if p["t"] not in rs.nodes:
        return [f"{here}: unknown type"]
    if p["t"] == "text":
        if not p["x"]:
            out.append(f"{here}: empty text")
        if p["c"]:
            out.append(f"{here}: text with children")
    types = [c["t"] for c in p["c"]]
    if not rs.accepts(p["t"], types):
        out.append(f"{here}: content {types} not accepted")
    for i, c in enumerate(p["c"]):
        for m in c["m"]:
            if m[0] not in rs.marks:
                out.append(f"{here}[{i}]: unknown mark {m[0]}")
            elif not rs.allows_mark(p["t"], m[0]):
                out.append(f"{here}[{i}]: mark {m[0]} not allowed in {p['t']}")
    if all(m[0] in rs.marks for m in p["m"]) and not rm.canonical(rs, p["m"]):
        out.append(f"{here}: mark set {[m[0] for m in p['m']]} not canonical")
    for i, c in enumerate(p["c"]):
        out.extend(node_problems(rs, c, f"{here}[{i}]"))
    return out


def valid(rs: RefSchema, p: dict) -> bool:
    return not node_problems(rs, p)


def normal_form_problems(p: dict, path: str = "") -> list[str]:
    """Adjacent text nodes with equal marks must be merged (documents are in normal form)."""
    out = []
    prev = None
    for i, c in enumerate(p["c"]):
        if c["t"] == "text" and prev is not None and prev["t"] == "text" and rm.same_set(prev["m"], c["m"]):
            out.append(f"{path}/{p['t']}[{i}]: unmerged adjacent text")
        prev = c
        out.extend(normal_form_problems(c, f"{path}/{p['t']}[{i}]"))
    return out
