"""Token-level reference for slicing and replacing (C02) and helpers shared by other properties."""
from __future__ import annotations

import json

from . import rx, u16
from .plain import Unbalanced, tokens_of, tree_of
from .schema import RefSchema
from .validate import node_problems


def open_stack(toks: list, pos: int) -> list[int]:
    """Indices of the open tokens of the ancestors at position `pos` (outermost first)."""
    st: list[int] = []
    for i in range(pos):
        k = toks[i][0]
        if k == "open":
            st.append(i)
        elif k == "close":
            st.pop()
    return st


def depth_table(toks: list) -> list[int]:
    """depth_table[p] = depth of position p (number of open ancestors below the document)."""
    out = [0]
    d = 0
    for t in toks:
        if t[0] == "open":
            d += 1
        elif t[0] == "close":
            d -= 1
        out.append(d)
    return out


def splits_pair_at(toks: list, pos: int) -> bool:
    """Position pos falls between the two UTF-16 units of one character."""
    if pos <= 0 or pos >= len(toks):
        return False
    a, b = toks[pos - 1], toks[pos]
    return a[0] == "char" and b[0] == "char" and 0xD800 <= a[1] < 0xDC00 and 0xDC00 <= b[1] < 0xE000


def close_for(open_tok: tuple) -> tuple:
    return ("close",) + tuple(open_tok[1:])


def ref_slice(toks: list, a: int, b: int, include_parents: bool = False) -> dict | None:
    """Plain slice {"c", "os", "oe"} of the token range [a,b); None when a or b splits a surrogate pair."""
    if a == b:
        return {"c": [], "os": 0, "oe": 0}
    if splits_pair_at(toks, a) or splits_pair_at(toks, b):
        return None
    sa = open_stack(toks, a)
    sb = open_stack(toks, b)
    d = 0
    if not include_parents:
        while d < len(sa) and d < len(sb) and sa[d] == sb[d]:
            d += 1
    seq = [toks[i] for i in sa[d:]] + toks[a:b] + [close_for(toks[i]) for i in reversed(sb[d:])]
    return {"c": tree_of(seq), "os": len(sa) - d, "oe": len(sb) - d}


def slice_inner_tokens(sl: dict, leaf_types: set[str]) -> list:
    t = tokens_of(sl["c"], leaf_types)
    return t[sl["os"] : len(t) - sl["oe"]]


def slice_size(sl: dict, leaf_types: set[str]) -> int:
    return len(tokens_of(sl["c"], leaf_types)) - sl["os"] - sl["oe"]


class RefReplaceError(Exception):
    def __init__(self, reason: str) -> None:
        super().__init__(reason)
        self.reason = reason


def compatible(rs: RefSchema, left: str, right: str) -> bool:
    """Documented join rule: same type, or the content expressions can start with a common type."""
    return left == right or bool(rx.first(rs.content[left]) & rx.first(rs.content[right]))


def ref_replace(rs: RefSchema, doc: dict, frm: int, to: int, sl: dict) -> dict:
    """Expected document, or RefReplaceError with the reason the splice is not a valid tree."""
    lt = rs.leaf_types
    T = tokens_of(doc["c"], lt)
    inner = slice_inner_tokens(sl, lt)
    if splits_pair_at(T, frm) or splits_pair_at(T, to):
        raise RefReplaceError("mid-surrogate")
    E = T[:frm] + inner + T[to:]
    # parse with lenient seam joins
    stack: list[list] = [[]]
    opens: list[tuple] = []
    units: list[int] = []
    umarks: tuple | None = None
    joins = 0

    def flush() -> None:
        nonlocal units, umarks
        if units:
            s = u16.from_units(units)
            if s is None:
                raise RefReplaceError("mid-surrogate")
            stack[-1].append({"t": "text", "a": {}, "m": [[n, json.loads(a)] for n, a in (umarks or ())], "x": s, "c": []})
            units = []
            umarks = None

    for tok in E:
        k = tok[0]
        if k == "char":
            if units and umarks != tok[2]:
                flush()
            units.append(tok[1])
            umarks = tok[2]
            continue
        flush()
        if k == "leaf":
            stack[-1].append({"t": tok[1], "a": json.loads(tok[2]), "m": [[n, json.loads(a)] for n, a in tok[3]], "x": None, "c": []})
        elif k == "open":
            opens.append(tok)
            stack.append([])
        else:
            if not opens:
                raise RefReplaceError("unbalanced: close without open (inserted content deeper than insertion position)")
            o = opens.pop()
            if o[1:] != tok[1:]:
                if not compatible(rs, o[1], tok[1]):
                    raise RefReplaceError(f"cannot join {tok[1]} onto {o[1]}")
                joins += 1
            kids = stack.pop()
            stack[-1].append({"t": o[1], "a": json.loads(o[2]), "m": [[n, json.loads(a)] for n, a in o[3]], "x": None, "c": kids})
    flush()
    if opens:
        raise RefReplaceError("unbalanced: unclosed open (inconsistent open depths)")
    out = dict(doc)
    out["c"] = stack[0]
    probs = node_problems(rs, out)
    if probs:
        raise RefReplaceError("invalid: " + probs[0])
    out["_joins"] = joins
    return out


__all__ = ["Unbalanced"]
