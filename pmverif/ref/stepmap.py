"""Reference position maps, written from the documented rule (DESIGN.md §3.6).

RefMap holds triples (start, old, new) with `start` in the map's OWN old coordinate system
(an inverted library map is converted on construction).
"""
from __future__ import annotations


class RefResult:
    __slots__ = ("pos", "deleted", "deleted_before", "deleted_after", "deleted_across", "recover", "in_range", "insertion")

    def __init__(self) -> None:
        self.pos = 0
        self.deleted = False
        self.deleted_before = False
        self.deleted_after = False
        self.deleted_across = False
        self.recover: tuple[int, int] | None = None  # (range index, offset) or None
        self.in_range: int | None = None
        self.insertion = False


class RefMap:
    def __init__(self, triples: list[tuple[int, int, int]]) -> None:
        self.triples = list(triples)

    @classmethod
    def from_stored(cls, ranges: list[int], inverted: bool) -> "RefMap":
        out = []
        shift = 0
        for i in range(0, len(ranges), 3):
            s, o, n = ranges[i], ranges[i + 1], ranges[i + 2]
            if inverted:
                out.append((s + shift, n, o))
                shift += n - o
            else:
                out.append((s, o, n))
        return cls(out)

    def inverse(self) -> "RefMap":
        out = []
        diff = 0
        for s, o, n in self.triples:
            out.append((s + diff, n, o))
            diff += n - o
        return RefMap(out)

    def adjacent(self) -> bool:
        return any(a[0] + a[1] == b[0] for a, b in zip(self.triples, self.triples[1:]))

    def size_delta(self) -> int:
        return sum(n - o for _, o, n in self.triples)

    def result(self, pos: int, assoc: int) -> RefResult:
        r = RefResult()
        diff = 0
        for i, (s, o, n) in enumerate(self.triples):
            if s > pos:
                break
            e = s + o
            if pos <= e:
                if o == 0:
                    side = assoc
                elif pos == s:
                    side = -1
                elif pos == e:
                    side = 1
                else:
                    side = assoc
                r.pos = s + diff + (0 if side < 0 else n)
                r.in_range = i
                r.insertion = o == 0
                # token reading: token pos-1 deleted iff s < pos <= e ; token pos deleted iff s <= pos < e
                r.deleted_before = s < pos
                r.deleted_after = pos < e
                r.deleted_across = s < pos < e
                r.deleted = r.deleted_before if assoc < 0 else r.deleted_after
                boundary = s if assoc < 0 else e
                r.recover = None if pos == boundary else (i, pos - s)
                return r
            diff += n - o
        r.pos = pos + diff
        return r

    def map(self, pos: int, assoc: int = 1) -> int:
        return self.result(pos, assoc).pos

    def recover(self, rec: tuple[int, int]) -> int:
        """Position, in this map's NEW coordinates... no: the position that `rec` (made by the inverse map)
        denotes in this map's new coordinate system = the inverse map's old coordinates."""
        idx, off = rec
        diff = 0
        for j in range(idx):
            diff += self.triples[j][2] - self.triples[j][1]
        return self.triples[idx][0] + diff + off

    def for_each(self) -> list[tuple[int, int, int, int]]:
        out = []
        diff = 0
        for s, o, n in self.triples:
            out.append((s, s + o, s + diff, s + diff + n))
            diff += n - o
        return out

    def touches(self, pos: int, idx: int) -> bool:
        if idx >= len(self.triples):
            return False
        for i, (s, o, _n) in enumerate(self.triples):
            if s > pos:
                return False
            if pos <= s + o and i == idx:
                return True
        return False

    def max_pos(self) -> int:
        if not self.triples:
            return 0
        s, o, _ = self.triples[-1]
        return s + o


class RefMapping:
    """Left-to-right composition with mirror jumps (documented recover mechanism)."""

    def __init__(self, maps: list[RefMap], mirror: dict[int, int] | None = None) -> None:
        self.maps = maps
        self.mirror = mirror or {}

    def map(self, pos: int, assoc: int, frm: int = 0, to: int | None = None) -> tuple[int, bool]:
        if to is None:
            to = len(self.maps)
        i = frm
        deleted = False
        while i < to:
            r = self.maps[i].result(pos, assoc)
            if r.recover is not None:
                corr = self.mirror.get(i)
                if corr is not None and i < corr < to:
                    # the mirror map is (a rebased version of) the inverse: recover in its new coordinates
                    pos = self.maps[corr].recover(r.recover)
                    i = corr + 1
                    continue
            deleted = deleted or r.deleted
            pos = r.pos
            i += 1
        return pos, deleted
