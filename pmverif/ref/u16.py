"""UTF-16 arithmetic computed from code points (no str.encode)."""
from __future__ import annotations


def u16len(s: str) -> int:
    return len(s) + sum(1 for ch in s if ord(ch) >= 0x10000)


def units(s: str) -> list[int]:
    out: list[int] = []
    for ch in s:
        cp = ord(ch)
        if cp >= 0x10000:
            cp -= 0x10000
            out.append(0xD800 + (cp >> 10))
            out.append(0xDC00 + (cp & 0x3FF))
        else:
            out.append(cp)
    return out


def from_units(us: list[int]) -> str | None:
    """Re-assemble a str; None when the unit list starts/ends with half a pair."""
    out = []
    i = 0
    n = len(us)
    while i < n:
        u = us[i]
        if 0xD800 <= u < 0xDC00:
            if i + 1 < n and 0xDC00 <= us[i + 1] < 0xE000:
                out.append(chr(0x10000 + ((u - 0xD800) << 10) + (us[i + 1] - 0xDC00)))
                i += 2
                continue
            return None
        if 0xDC00 <= u < 0xE000:
            return None
        out.append(chr(u))
        i += 1
    return "".join(out)


def splits_pair(s: str, off: int) -> bool:
    """True when UTF-16 offset `off` falls between the two units of one astral character."""
    pos = 0
    for ch in s:
        if pos >= off:
            return False
        w = 2 if ord(ch) >= 0x10000 else 1
        if w == 2 and pos + 1 == off:
            return True
        pos += w
    return False


def cut(s: str, a: int, b: int) -> str | None:
    """Substring by UTF-16 offsets; None if a or b splits a pair."""
    if splits_pair(s, a) or splits_pair(s, b):
        return None
    us = units(s)
    return from_units(us[a:b])
