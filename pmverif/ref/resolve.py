"""Reference position resolver and traversals on the plain tree (C09), from the documented definitions."""
from __future__ import annotations

from typing import Any, Callable

from . import marks as rm
from . import u16
from .schema import RefSchema


class N:
    """Sized view of a plain node."""

    __slots__ = ("p", "t", "size", "content_size", "kids", "offs", "is_text", "is_leaf")

    def __init__(self, p: dict, rs: RefSchema) -> None:
        self.p = p
        self.t = p["t"]
        self.is_text = self.t == "text"
        self.is_leaf = rs.leaf[self.t]
        self.kids = [N(c, rs) for c in p["c"]]
        self.offs = []
        off = 0
        for k in self.kids:
            self.offs.append(off)
            off += k.size
        self.content_size = off
        if self.is_text:
            self.size = u16.u16len(p["x"])
        elif self.is_leaf:
            self.size = 1
        else:
            self.size = 2 + off


class RefPos:
    """Resolved position. path[d] = (node N, index, start) with start = absolute position of node's content start."""

    def __init__(self, rs: RefSchema, doc: N, pos: int) -> None:
        if pos < 0 or pos > doc.content_size:
            raise ValueError("out of range")
        self.rs = rs
        self.pos = pos
        self.path: list[tuple[N, int, int]] = []
        node = doc
        start = 0
        rel = pos
        self.text_offset = 0
        while True:
            # find the child boundary / containing child
            idx = len(node.kids)
            inside = None
            for i, k in enumerate(node.kids):
                o = node.offs[i]
                if rel == o:
                    idx = i
                    break
                if o < rel < o + k.size:
                    idx = i
                    inside = k
                    break
            self.path.append((node, idx, start))
            if inside is None:
                break
            if inside.is_text:
                self.text_offset = rel - node.offs[idx]
                break
            start = start + node.offs[idx] + 1
            rel = rel - node.offs[idx] - 1
            node = inside
        self.depth = len(self.path) - 1
        self.parent_offset = pos - self.path[-1][2]

    def node(self, d: int) -> N:
        return self.path[d][0]

    @property
    def parent(self) -> N:
        return self.path[-1][0]

    def index(self, d: int) -> int:
        return self.path[d][1]

    def index_after(self, d: int) -> int:
        return self.index(d) + (0 if d == self.depth and not self.text_offset else 1)

    def start(self, d: int) -> int:
        return self.path[d][2]

    def end(self, d: int) -> int:
        return self.start(d) + self.node(d).content_size

    def before(self, d: int) -> int:
        if d == 0:
            raise ValueError("no position before the top node")
        if d == self.depth + 1:
            return self.pos
        return self.start(d) - 1

    def after(self, d: int) -> int:
        if d == 0:
            raise ValueError("no position after the top node")
        if d == self.depth + 1:
            return self.pos
        return self.end(d) + 1

    def _text_part(self, k: N, a: int, b: int) -> dict | None:
        s = u16.cut(k.p["x"], a, b)
        if s is None:
            return None  # mid-surrogate
        q = dict(k.p)
        q["x"] = s
        return q

    def node_after(self) -> Any:
        """plain node, None, or "MID" when the cut would split a surrogate pair."""
        par, idx, _ = self.path[-1]
        if idx == len(par.kids):
            return None
        k = par.kids[idx]
        if self.text_offset:
            r = self._text_part(k, self.text_offset, k.size)
            return "MID" if r is None else r
        return k.p

    def node_before(self) -> Any:
        par, idx, _ = self.path[-1]
        if self.text_offset:
            r = self._text_part(par.kids[idx], 0, self.text_offset)
            return "MID" if r is None else r
        return None if idx == 0 else par.kids[idx - 1].p

    def pos_at_index(self, index: int, d: int) -> int:
        n = self.node(d)
        return self.start(d) + sum(k.size for k in n.kids[:index])

    def shared_depth(self, pos: int) -> int:
        for d in range(self.depth, 0, -1):
            if self.start(d) <= pos <= self.end(d):
                return d
        return 0

    def same_parent(self, other: "RefPos") -> bool:
        return self.pos - self.parent_offset == other.pos - other.parent_offset

    def _drop_noninclusive(self, marks: list, other: list | None) -> list:
        out = []
        for m in marks:
            if self.rs.marks[m[0]].get("inclusive") is False and (other is None or not rm.in_set(m, other)):
                continue
            out.append(m)
        return out

    def marks(self) -> list:
        par, idx, _ = self.path[-1]
        if par.content_size == 0:
            return []
        if self.text_offset:
            return par.kids[idx].p["m"]
        before = par.kids[idx - 1] if idx - 1 >= 0 else None
        after = par.kids[idx] if idx < len(par.kids) else None
        main, other = (before, after) if before is not None else (after, None)
        return self._drop_noninclusive(main.p["m"], None if other is None else other.p["m"])

    def marks_across(self, end: "RefPos") -> list | None:
        par, idx, _ = self.path[-1]
        after = par.kids[idx] if idx < len(par.kids) else None
        if after is None or not self.rs.inline[after.t]:
            return None
        epar, eidx, _ = end.path[-1]
        nxt = epar.kids[eidx] if eidx < len(epar.kids) else None
        return self._drop_noninclusive(after.p["m"], None if nxt is None else nxt.p["m"])

    def block_range(self, other: "RefPos") -> tuple | None:
        """(depth, start, end, start_index, end_index) or None."""
        if other.pos < self.pos:
            return other.block_range(self)
        d = self.depth - (1 if (self.rs.inline_content[self.parent.t] or self.pos == other.pos) else 0)
        while d >= 0:
            if other.pos <= self.end(d):
                return (d, self.before(d + 1), other.after(d + 1), self.index(d), other.index_after(d))
            d -= 1
        return None


# ------------------------------------------------------------------ node-level lookups


def all_nodes(doc: N) -> list[tuple[N, int, N, int, int]]:
    """(node, absolute start, parent, index, depth) for every descendant, document order."""
    out = []

    def walk(n: N, start: int, depth: int) -> None:
        for i, k in enumerate(n.kids):
            s = start + n.offs[i]
            out.append((k, s, n, i, depth))
            if not k.is_leaf and not k.is_text:
                walk(k, s + 1, depth + 1)

    walk(doc, 0, 0)
    return out


def node_at(doc: N, pos: int) -> dict | None:
    """The node starting exactly at pos (outermost such) or the text node containing pos."""
    best = None
    for k, s, _par, _i, depth in all_nodes(doc):
        if s == pos or (k.is_text and s < pos < s + k.size):
            if best is None or depth < best[1]:
                best = (k, depth)
    return None if best is None else best[0].p


def find_index(n: N, pos: int, round_: int = -1) -> tuple[int, int]:
    if pos == 0:
        return (0, 0)
    if pos == n.content_size:
        return (len(n.kids), pos)
    if pos > n.content_size or pos < 0:
        raise ValueError("outside")
    for i, k in enumerate(n.kids):
        end = n.offs[i] + k.size
        if end >= pos:
            if end == pos or round_ > 0:
                return (i + 1, end)
            return (i, n.offs[i])
    raise AssertionError


def child_after(n: N, pos: int) -> tuple:
    i, off = find_index(n, pos)
    return (n.kids[i].p if i < len(n.kids) else None, i, off)


def child_before(n: N, pos: int) -> tuple:
    if pos == 0:
        return (None, 0, 0)
    i, off = find_index(n, pos)
    if off < pos:
        return (n.kids[i].p, i, off)
    k = n.kids[i - 1]
    return (k.p, i - 1, off - k.size)


def nodes_between(doc: N, frm: int, to: int, prune: Callable[[dict], bool] | None = None) -> list[tuple]:
    """[(plain node, pos, plain parent, index)] for nodes with start < to and end > frm, honouring pruning."""
    out = []

    def walk(n: N, start: int) -> None:
        for i, k in enumerate(n.kids):
            s = start + n.offs[i]
            if s >= to:
                break
            if s + k.size > frm:
                out.append((k.p, s, n.p, i))
                if prune is not None and prune(k.p):
                    continue
                if not k.is_leaf and not k.is_text and k.content_size:
                    walk(k, s + 1)

    walk(doc, 0)
    return out


def text_between(rs: RefSchema, doc: N, frm: int, to: int, sep: str, leaf_text: str) -> str | None:
    """1.18 semantics; None when frm/to splits a surrogate pair."""
    parts = []
    separated = True
    for p, s, _par, _i in nodes_between(doc, frm, to):
        if p["t"] == "text":
            seg = u16.cut(p["x"], max(frm, s) - s, min(to - s, u16.u16len(p["x"])))
            if seg is None:
                return None
            parts.append(seg)
            separated = not sep
        elif rs.leaf[p["t"]]:
            if leaf_text:
                parts.append(leaf_text)
            separated = not sep
        elif not separated and not rs.inline[p["t"]]:
            parts.append(sep)
            separated = True
    return "".join(parts)
