"""Plain-data view of library objects, flat token sequences, and the way back.

plain node: {"t": type name, "a": attrs dict, "m": [[mark type, attrs], ...],
             "x": text or None, "c": [children]}
Only attribute reads are used on library objects (no to_json, no eq, no check).
"""
from __future__ import annotations

import copy
import json
from typing import Any

from . import u16


def jkey(v: Any) -> str:
    return json.dumps(v, sort_keys=True, ensure_ascii=True, default=repr)


def plain_mark(m: Any) -> list:
    return [m.type.name, copy.deepcopy(m.attrs)]


def plain(node: Any) -> dict:
    text = getattr(node, "text", None) if node.type.name == "text" else None
    if node.type.name == "text" and not (isinstance(text, str) and text):
        # a node of the text type without (non-empty) text is no document at all: every property that looks at a
        # document the library returned reports it, instead of the harness tripping over it
        from ..core import Violation

        raise Violation("model:malformed-text-node", f"the library produced a text-typed node without text ({type(node).__name__}, text={text!r})")
    return {
        "t": node.type.name,
        "a": copy.deepcopy(node.attrs),
        "m": [plain_mark(m) for m in node.marks],
        "x": text,
        "c": [plain(ch) for ch in node.content.content],
    }


def plain_fragment(frag: Any) -> list[dict]:
    return [plain(ch) for ch in frag.content]


def plain_slice(sl: Any) -> dict:
    return {"c": plain_fragment(sl.content), "os": sl.open_start, "oe": sl.open_end}


def mk(t: str, a: dict | None = None, c: list | None = None, m: list | None = None, x: str | None = None) -> dict:
    return {"t": t, "a": a or {}, "m": m or [], "x": x, "c": c or []}


def is_leaf_plain(p: dict, leaf_types: set[str]) -> bool:
    return p["t"] in leaf_types


# ---------------------------------------------------------------- tokens


def mkey(marks: list) -> tuple:
    return tuple((n, jkey(a)) for n, a in marks)


def tokens_of(children: list[dict], leaf_types: set[str], out: list | None = None) -> list:
    """Flat tokens of a list of sibling plain nodes. Index in the result == position."""
    if out is None:
        out = []
    for p in children:
        if p["t"] == "text":
            mk_ = mkey(p["m"])
            for u in u16.units(p["x"]):
                out.append(("char", u, mk_))
        elif p["t"] in leaf_types:
            out.append(("leaf", p["t"], jkey(p["a"]), mkey(p["m"])))
        else:
            a = jkey(p["a"])
            m = mkey(p["m"])
            out.append(("open", p["t"], a, m))
            tokens_of(p["c"], leaf_types, out)
            out.append(("close", p["t"], a, m))
    return out


def leafseq(toks: list) -> list:
    return [t for t in toks if t[0] in ("char", "leaf")]


def strip_marks(tok: tuple) -> tuple:
    if tok[0] == "char":
        return ("char", tok[1])
    return tok[:3]


class Unbalanced(Exception):
    pass


def tree_of(toks: list) -> list[dict]:
    """Inverse of tokens_of: rebuild sibling list; merge adjacent chars with equal marks."""
    stack: list[list] = [[]]
    opens: list[tuple] = []
    pending_units: list[int] = []
    pending_marks: tuple | None = None

    def flush() -> None:
        nonlocal pending_units, pending_marks
        if pending_units:
            s = u16.from_units(pending_units)
            if s is None:
                raise Unbalanced("half surrogate pair")
            stack[-1].append(
                {"t": "text", "a": {}, "m": [[n, json.loads(a)] for n, a in (pending_marks or ())], "x": s, "c": []}
            )
            pending_units = []
            pending_marks = None

    for tok in toks:
        k = tok[0]
        if k == "char":
            if pending_units and pending_marks != tok[2]:
                # a marks change in the middle of a surrogate pair cannot be represented
                flush()
            pending_units.append(tok[1])
            pending_marks = tok[2]
            continue
        flush()
        if k == "leaf":
            stack[-1].append(
                {"t": tok[1], "a": json.loads(tok[2]), "m": [[n, json.loads(a)] for n, a in tok[3]], "x": None, "c": []}
            )
        elif k == "open":
            opens.append(tok)
            stack.append([])
        elif k == "close":
            if not opens:
                raise Unbalanced("close without open")
            o = opens.pop()
            if o[1:] != tok[1:]:
                raise Unbalanced(f"close {tok[1]} does not match open {o[1]}")
            kids = stack.pop()
            stack[-1].append(
                {"t": o[1], "a": json.loads(o[2]), "m": [[n, json.loads(a)] for n, a in o[3]], "x": None, "c": kids}
            )
    flush()
    if opens:
        raise Unbalanced("unclosed open")
    return stack[0]


def size_of(children: list[dict], leaf_types: set[str]) -> int:
    n = 0
    for p in children:
        if p["t"] == "text":
            n += u16.u16len(p["x"])
        elif p["t"] in leaf_types:
            n += 1
        else:
            n += 2 + size_of(p["c"], leaf_types)
    return n


# ---------------------------------------------------------------- building library objects


def build_mark(schema: Any, m: list, shared: bool = False) -> Any:
    from prosemirror.model import Mark

    if shared:
        # the way application code gets an all-defaults mark: MarkType.create() without attributes, which hands out
        # one shared instance per type (where the type has one)
        inst = schema.marks[m[0]].create(None) if all("default" in (sp or {}) for sp in (schema.marks[m[0]].spec.get("attrs") or {}).values()) else None
        if inst is not None and inst.attrs == m[1]:
            return inst
    return Mark(schema.marks[m[0]], copy.deepcopy(m[1]))


def build(schema: Any, p: dict, shared_marks: bool = False) -> Any:
    """Materialise a plain node with the raw constructors (no sorting, no checking)."""
    from prosemirror.model import Fragment, Node
    from prosemirror.model.node import TextNode

    marks = [build_mark(schema, m, shared_marks) for m in p["m"]]
    typ = schema.nodes[p["t"]]
    if p["t"] == "text":
        return TextNode(typ, copy.deepcopy(p["a"]), p["x"], marks)
    kids = [build(schema, c, shared_marks) for c in p["c"]]
    return Node(typ, copy.deepcopy(p["a"]), Fragment(kids) if kids else None, marks)


def build_fragment(schema: Any, children: list[dict]) -> Any:
    from prosemirror.model import Fragment

    if not children:
        return Fragment.empty
    return Fragment([build(schema, c) for c in children])


def build_slice(schema: Any, s: dict) -> Any:
    from prosemirror.model import Slice

    return Slice(build_fragment(schema, s["c"]), s["os"], s["oe"])
