"""Reference mark-set algebra on plain marks [name, attrs], from the schema spec only."""
from __future__ import annotations

from .schema import RefSchema


def mark_eq(a: list, b: list) -> bool:
    return a[0] == b[0] and a[1] == b[1]


def in_set(m: list, s: list[list]) -> bool:
    return any(mark_eq(m, o) for o in s)


def ref_add(rs: RefSchema, m: list, s: list[list]) -> list[list]:
    """Documented addToSet: unchanged if an equal mark is present or a present mark excludes m
    (and is not itself excluded by m); otherwise drop what m excludes and insert m by rank."""
    for o in s:
        if mark_eq(m, o):
            return list(s)
        if rs.excludes(m[0], o[0]):
            continue
        if rs.excludes(o[0], m[0]):
            return list(s)
    kept = [o for o in s if not rs.excludes(m[0], o[0])]
    out = []
    placed = False
    for o in kept:
        if not placed and rs.rank[o[0]] > rs.rank[m[0]]:
            out.append(m)
            placed = True
        out.append(o)
    if not placed:
        out.append(m)
    return out


def ref_remove(m: list, s: list[list]) -> list[list]:
    return [o for o in s if not mark_eq(m, o)]


def ref_remove_type(name: str, s: list[list]) -> list[list]:
    return [o for o in s if o[0] != name]


def canonical(rs: RefSchema, s: list[list]) -> bool:
    cur: list[list] = []
    for m in s:
        cur = ref_add(rs, m, cur)
    return cur == [list(x) for x in s]


def ref_allowed(rs: RefSchema, parent: str, s: list[list]) -> list[list]:
    return [m for m in s if rs.allows_mark(parent, m[0])]


def same_set(a: list[list], b: list[list]) -> bool:
    return len(a) == len(b) and all(mark_eq(x, y) for x, y in zip(a, b))


def sorted_by_rank(rs: RefSchema, s: list[list]) -> list[list]:
    return sorted(s, key=lambda m: rs.rank[m[0]])
