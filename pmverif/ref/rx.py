"""Reference semantics of content expressions: own tokenizer + parser, Brzozowski derivatives.

Regex values are hash-consed tuples built only through the smart constructors, so that
  * a value is EMPTY  <=>  its language is empty (structural),
  * derivatives of one expression form a finite set (alt is flattened, sorted, de-duplicated).
"""
from __future__ import annotations

import functools
import re

EMPTY = ("empty",)
EPS = ("eps",)


class ParseErr(Exception):
    pass


def sym(a: str) -> tuple:
    return ("sym", a)


def seq(a: tuple, b: tuple) -> tuple:
    if a == EMPTY or b == EMPTY:
        return EMPTY
    if a == EPS:
        return b
    if b == EPS:
        return a
    if a[0] == "seq":  # right-nest for canonical form
        return seq(a[1], seq(a[2], b))
    return ("seq", a, b)


def alt(a: tuple, b: tuple) -> tuple:
    if a == EMPTY:
        return b
    if b == EMPTY:
        return a
    if a == b:
        return a
    items = set()

    def coll(x: tuple) -> None:
        if x[0] == "alt":
            for y in x[1]:
                items.add(y)
        else:
            items.add(x)

    coll(a)
    coll(b)
    if len(items) == 1:
        return next(iter(items))
    return ("alt", tuple(sorted(items, key=repr)))


def star(a: tuple) -> tuple:
    if a in (EMPTY, EPS):
        return EPS
    if a[0] == "star":
        return a
    return ("star", a)


def opt(a: tuple) -> tuple:
    return alt(EPS, a)


def plus(a: tuple) -> tuple:
    return seq(a, star(a))


def rng(a: tuple, lo: int, hi: int) -> tuple:
    """a{lo,hi}; hi == -1 means unbounded."""
    r = EPS
    if hi == -1:
        r = star(a)
    else:
        for _ in range(hi - lo):
            r = opt(seq(a, r))
    for _ in range(lo):
        r = seq(a, r)
    return r


@functools.lru_cache(maxsize=None)
def nullable(r: tuple) -> bool:
    k = r[0]
    if k in ("eps", "star"):
        return True
    if k in ("empty", "sym"):
        return False
    if k == "seq":
        return nullable(r[1]) and nullable(r[2])
    return any(nullable(x) for x in r[1])


@functools.lru_cache(maxsize=None)
def deriv(r: tuple, a: str) -> tuple:
    k = r[0]
    if k in ("empty", "eps"):
        return EMPTY
    if k == "sym":
        return EPS if r[1] == a else EMPTY
    if k == "seq":
        d = seq(deriv(r[1], a), r[2])
        return alt(d, deriv(r[2], a)) if nullable(r[1]) else d
    if k == "alt":
        out = EMPTY
        for x in r[1]:
            out = alt(out, deriv(x, a))
        return out
    return seq(deriv(r[1], a), r)


@functools.lru_cache(maxsize=None)
def first(r: tuple) -> frozenset:
    k = r[0]
    if k in ("empty", "eps"):
        return frozenset()
    if k == "sym":
        return frozenset([r[1]])
    if k == "seq":
        return first(r[1]) | first(r[2]) if nullable(r[1]) else first(r[1])
    if k == "alt":
        out: frozenset = frozenset()
        for x in r[1]:
            out |= first(x)
        return out
    return first(r[1])


def alphabet(r: tuple) -> frozenset:
    k = r[0]
    if k in ("empty", "eps"):
        return frozenset()
    if k == "sym":
        return frozenset([r[1]])
    if k == "seq":
        return alphabet(r[1]) | alphabet(r[2])
    if k == "alt":
        out: frozenset = frozenset()
        for x in r[1]:
            out |= alphabet(x)
        return out
    return alphabet(r[1])


def run(r: tuple, seq_: list[str]) -> tuple:
    for a in seq_:
        r = deriv(r, a)
        if r == EMPTY:
            return EMPTY
    return r


def accepts(r: tuple, seq_: list[str]) -> bool:
    return nullable(run(r, seq_))


def live(r: tuple) -> bool:
    return r != EMPTY


def states(r: tuple, alpha: list[str] | None = None) -> list[tuple]:
    """All non-EMPTY derivative states reachable from r (BFS order)."""
    seen = {r}
    order = [r]
    i = 0
    while i < len(order):
        cur = order[i]
        i += 1
        for a in sorted(first(cur)) if alpha is None else alpha:
            d = deriv(cur, a)
            if d != EMPTY and d not in seen:
                seen.add(d)
                order.append(d)
    return order


# ------------------------------------------------------------------ parser (documented grammar)

_TOK = re.compile(r"\w+|\W")


def tokenize(s: str) -> list[str]:
    return [t for t in _TOK.findall(s) if t.strip()]


class _P:
    def __init__(self, toks: list[str], resolve) -> None:  # noqa: ANN001
        self.t = toks
        self.i = 0
        self.resolve = resolve

    def peek(self) -> str | None:
        return self.t[self.i] if self.i < len(self.t) else None

    def eat(self, x: str) -> bool:
        if self.peek() == x:
            self.i += 1
            return True
        return False

    def expr(self) -> tuple:
        r = self.seq_()
        while self.eat("|"):
            r = alt(r, self.seq_())
        return r

    def seq_(self) -> tuple:
        parts = [self.sub()]
        while self.peek() is not None and self.peek() not in (")", "|"):
            parts.append(self.sub())
        r = EPS
        for p in reversed(parts):
            r = seq(p, r)
        return r

    def sub(self) -> tuple:
        r = self.atom()
        while True:
            if self.eat("+"):
                r = plus(r)
            elif self.eat("*"):
                r = star(r)
            elif self.eat("?"):
                r = opt(r)
            elif self.eat("{"):
                lo = self.num()
                hi = lo
                if self.eat(","):
                    hi = -1 if self.peek() == "}" else self.num()
                if not self.eat("}"):
                    raise ParseErr("unclosed range")
                if hi != -1 and hi < lo:
                    raise ParseErr("range with max < min (unspecified upstream)")
                r = rng(r, lo, hi)
            else:
                return r

    def num(self) -> int:
        t = self.peek()
        if t is None or not t.isdigit() or not t.isascii():
            raise ParseErr("number expected")
        self.i += 1
        return int(t)

    def atom(self) -> tuple:
        if self.eat("("):
            r = self.expr()
            if not self.eat(")"):
                raise ParseErr("missing closing paren")
            return r
        t = self.peek()
        if t is None or not re.match(r"\w", t):
            raise ParseErr(f"unexpected token {t!r}")
        self.i += 1
        names = self.resolve(t)
        r = EMPTY
        for n in names:
            r = alt(r, sym(n))
        return r


def parse(src: str, resolve) -> tuple:  # noqa: ANN001
    """resolve(name) -> list of type names (raises ParseErr when unknown)."""
    toks = tokenize(src)
    if not toks:
        return EPS
    p = _P(toks, resolve)
    r = p.expr()
    if p.peek() is not None:
        raise ParseErr("trailing text")
    return r
