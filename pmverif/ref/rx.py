"""Reference semantics of content expressions: own tokenizer + parser, Brzozowski derivatives.

Regex values are hash-consed `Rx` objects built only through the smart constructors, so that
  * two values are the same object  <=>  they are structurally equal (after ACI-normalising alt),
  * a value is EMPTY  <=>  its language is empty (structural),
  * derivatives of one expression form a finite set.
"""
from __future__ import annotations

import re


class ParseErr(Exception):
    pass


class Rx:
    __slots__ = ("kind", "arg", "uid", "_nullable", "_first", "_deriv")

    def __init__(self, kind: str, arg: object, uid: int) -> None:
        self.kind = kind
        self.arg = arg
        self.uid = uid
        self._nullable: bool | None = None
        self._first: frozenset | None = None
        self._deriv: dict[str, "Rx"] = {}

    def __repr__(self) -> str:
        k = self.kind
        if k in ("empty", "eps"):
            return k
        if k == "sym":
            return str(self.arg)
        if k == "seq":
            return "(" + " ".join(repr(x) for x in self.arg) + ")"  # type: ignore[union-attr]
        if k == "alt":
            return "(" + " | ".join(repr(x) for x in self.arg) + ")"  # type: ignore[union-attr]
        return repr(self.arg) + "*"

    def __lt__(self, other: "Rx") -> bool:
        return self.uid < other.uid


_table: dict[tuple, Rx] = {}


def _mk(kind: str, arg: object, key: tuple) -> Rx:
    r = _table.get(key)
    if r is None:
        r = Rx(kind, arg, len(_table))
        _table[key] = r
    return r


EMPTY = _mk("empty", None, ("empty",))
EPS = _mk("eps", None, ("eps",))


def sym(a: str) -> Rx:
    return _mk("sym", a, ("sym", a))


def seq(a: Rx, b: Rx) -> Rx:
    if a is EMPTY or b is EMPTY:
        return EMPTY
    if a is EPS:
        return b
    if b is EPS:
        return a
    if a.kind == "seq":  # right-nest for a canonical form
        x, y = a.arg  # type: ignore[misc]
        return seq(x, seq(y, b))
    return _mk("seq", (a, b), ("seq", a.uid, b.uid))


def alt(a: Rx, b: Rx) -> Rx:
    if a is EMPTY:
        return b
    if b is EMPTY:
        return a
    if a is b:
        return a
    items: dict[int, Rx] = {}
    for x in (a, b):
        if x.kind == "alt":
            for y in x.arg:  # type: ignore[union-attr]
                items[y.uid] = y
        else:
            items[x.uid] = x
    if len(items) == 1:
        return next(iter(items.values()))
    uids = tuple(sorted(items))
    return _mk("alt", tuple(items[u] for u in uids), ("alt", uids))


def star(a: Rx) -> Rx:
    if a is EMPTY or a is EPS:
        return EPS
    if a.kind == "star":
        return a
    return _mk("star", a, ("star", a.uid))


def opt(a: Rx) -> Rx:
    return alt(EPS, a)


def plus(a: Rx) -> Rx:
    return seq(a, star(a))


def rng(a: Rx, lo: int, hi: int) -> Rx:
    """a{lo,hi}; hi == -1 means unbounded."""
    r = EPS
    if hi == -1:
        r = star(a)
    else:
        for _ in range(hi - lo):
            r = opt(seq(a, r))
    for _ in range(lo):
        r = seq(a, r)
    return r


def nullable(r: Rx) -> bool:
    v = r._nullable
    if v is None:
        k = r.kind
        if k in ("eps", "star"):
            v = True
        elif k in ("empty", "sym"):
            v = False
        elif k == "seq":
            v = nullable(r.arg[0]) and nullable(r.arg[1])  # type: ignore[index]
        else:
            v = any(nullable(x) for x in r.arg)  # type: ignore[union-attr]
        r._nullable = v
    return v


def deriv(r: Rx, a: str) -> Rx:
    d = r._deriv.get(a)
    if d is None:
        k = r.kind
        if k in ("empty", "eps"):
            d = EMPTY
        elif k == "sym":
            d = EPS if r.arg == a else EMPTY
        elif k == "seq":
            x, y = r.arg  # type: ignore[misc]
            d = seq(deriv(x, a), y)
            if nullable(x):
                d = alt(d, deriv(y, a))
        elif k == "alt":
            d = EMPTY
            for x in r.arg:  # type: ignore[union-attr]
                d = alt(d, deriv(x, a))
        else:
            d = seq(deriv(r.arg, a), r)  # type: ignore[arg-type]
        r._deriv[a] = d
    return d


def first(r: Rx) -> frozenset:
    v = r._first
    if v is None:
        k = r.kind
        if k in ("empty", "eps"):
            v = frozenset()
        elif k == "sym":
            v = frozenset([r.arg])
        elif k == "seq":
            x, y = r.arg  # type: ignore[misc]
            v = first(x) | first(y) if nullable(x) else first(x)
        elif k == "alt":
            v = frozenset()
            for x in r.arg:  # type: ignore[union-attr]
                v |= first(x)
        else:
            v = first(r.arg)  # type: ignore[arg-type]
        r._first = v
    return v


def run(r: Rx, seq_: list[str]) -> Rx:
    for a in seq_:
        r = deriv(r, a)
        if r is EMPTY:
            return EMPTY
    return r


def accepts(r: Rx, seq_: list[str]) -> bool:
    return nullable(run(r, seq_))


def live(r: Rx) -> bool:
    return r is not EMPTY


def states(r: Rx, limit: int = 100000) -> list[Rx]:
    """All non-EMPTY derivative states reachable from r (BFS order)."""
    seen = {r.uid}
    order = [r]
    i = 0
    while i < len(order) and len(order) < limit:
        cur = order[i]
        i += 1
        for a in sorted(first(cur)):
            d = deriv(cur, a)
            if d is not EMPTY and d.uid not in seen:
                seen.add(d.uid)
                order.append(d)
    return order


# ------------------------------------------------------------------ parser (documented grammar)

_TOK = re.compile(r"\w+|\W")


def tokenize(s: str) -> list[str]:
    return [t for t in _TOK.findall(s) if t.strip()]


class _P:
    def __init__(self, toks: list[str], resolve) -> None:  # noqa: ANN001
        self.t = toks
        self.i = 0
        self.resolve = resolve

    def peek(self) -> str | None:
        return self.t[self.i] if self.i < len(self.t) else None

    def eat(self, x: str) -> bool:
        if self.peek() == x:
            self.i += 1
            return True
        return False

    def expr(self) -> Rx:
        r = self.seq_()
        while self.eat("|"):
            r = alt(r, self.seq_())
        return r

    def seq_(self) -> Rx:
        parts = [self.sub()]
        while self.peek() is not None and self.peek() not in (")", "|"):
            parts.append(self.sub())
        r = EPS
        for p in reversed(parts):
            r = seq(p, r)
        return r

    def sub(self) -> Rx:
        r = self.atom()
        while True:
            if self.eat("+"):
                r = plus(r)
            elif self.eat("*"):
                r = star(r)
            elif self.eat("?"):
                r = opt(r)
            elif self.eat("{"):
                lo = self.num()
                hi = lo
                if self.eat(","):
                    hi = -1 if self.peek() == "}" else self.num()
                if not self.eat("}"):
                    raise ParseErr("unclosed range")
                if hi != -1 and hi < lo:
                    raise ParseErr("range with max < min (unspecified upstream)")
                r = rng(r, lo, hi)
            else:
                return r

    def num(self) -> int:
        t = self.peek()
        if t is None or not t.isdigit() or not t.isascii():
            raise ParseErr("number expected")
        self.i += 1
        return int(t)

    def atom(self) -> Rx:
        if self.eat("("):
            r = self.expr()
            if not self.eat(")"):
                raise ParseErr("missing closing paren")
            return r
        t = self.peek()
        if t is None or not re.match(r"\w", t):
            raise ParseErr(f"unexpected token {t!r}")
        self.i += 1
        names = self.resolve(t)
        r = EMPTY
        for n in names:
            r = alt(r, sym(n))
        return r


def parse(src: str, resolve) -> Rx:  # noqa: ANN001
    """resolve(name) -> list of type names (raises ParseErr when unknown)."""
    toks = tokenize(src)
    if not toks:
        return EPS
    p = _P(toks, resolve)
    r = p.expr()
    if p.peek() is not None:
        raise ParseErr("trailing text")
    return r


def table_size() -> int:
    return len(_table)


_reset_hooks: list = []


def on_reset(fn) -> None:  # noqa: ANN001
    _reset_hooks.append(fn)


def maybe_reset(limit: int = 1_500_000) -> None:
    """Between cases: drop the hash-cons table (and every cache holding Rx values) when it grows large."""
    global EMPTY, EPS
    if len(_table) <= limit:
        return
    keep = {("empty",): EMPTY, ("eps",): EPS}
    _table.clear()
    _table.update(keep)
    for r in (EMPTY, EPS):
        r._deriv.clear()
    for fn in _reset_hooks:
        fn()
