"""Reference reading of a schema *spec* (plain dict), independent of the library's compiled Schema.

Everything here is derived from the spec text and the upstream documentation:
content expressions (ref.rx), groups, inline/leaf/textblock classification, allowed marks,
mark rank/exclusion, attribute defaults.
"""
from __future__ import annotations

import copy
from typing import Any

from . import rx


class SpecError(Exception):
    """The reference considers the spec malformed (the library must reject it too)."""


class RefSchema:
    def __init__(self, spec: dict) -> None:
        self.spec = spec
        self.nodes: dict[str, dict] = dict(spec["nodes"])
        self.marks: dict[str, dict] = dict(spec.get("marks") or {})
        self.top = spec.get("topNode") or "doc"
        self.node_names = list(self.nodes)
        self.mark_names = list(self.marks)
        self.rank = {n: i for i, n in enumerate(self.mark_names)}
        if self.top not in self.nodes or "text" not in self.nodes:
            raise SpecError("missing top node or text")
        self.groups = {n: (s["group"].split(" ") if "group" in s else []) for n, s in self.nodes.items()}
        self.inline = {n: bool(s.get("inline")) or n == "text" for n, s in self.nodes.items()}
        self.leaf = {n: not rx.tokenize(s.get("content", "") or "") for n, s in self.nodes.items()}
        self._inline_flag: bool | None = None
        self.content: dict[str, tuple] = {}
        for n, s in self.nodes.items():
            self._inline_flag = None
            try:
                self.content[n] = rx.parse(s.get("content", "") or "", self._resolve)
            except rx.ParseErr as e:
                raise SpecError(f"{n}: {e}") from e
        self.required = {
            n: [a for a, sp in (s.get("attrs") or {}).items() if "default" not in sp] for n, s in self.nodes.items()
        }
        self.generatable = {n: n != "text" and not self.required[n] for n in self.nodes}
        # dead ends: a reachable non-nullable state whose every continuation is non-generatable
        for n in self.nodes:
            for st in rx.states(self.content[n]):
                if not rx.nullable(st) and not any(self.generatable[a] for a in rx.first(st)):
                    raise SpecError(f"{n}: only non-generatable nodes in a required position")
        self.inline_content = {
            n: any(self.inline[a] for a in rx.first(self.content[n])) for n in self.nodes
        }
        self.textblock = {n: (not self.inline[n]) and self.inline_content[n] for n in self.nodes}
        # allowed marks per node type: None = all
        self.mark_set: dict[str, list[str] | None] = {}
        for n, s in self.nodes.items():
            me = s.get("marks")
            if me == "_":
                self.mark_set[n] = None
            elif me:
                self.mark_set[n] = self._gather(me.split(" "))
            elif me == "" or not self.inline_content[n]:
                self.mark_set[n] = []
            else:
                self.mark_set[n] = None
        self.excl: dict[str, list[str]] = {}
        for m, s in self.marks.items():
            e = s.get("excludes")
            if e is None:
                self.excl[m] = [m]
            elif e == "":
                self.excl[m] = []
            else:
                self.excl[m] = self._gather(e.split(" "))
        self.leaf_types = {n for n in self.nodes if self.leaf[n] and n != "text"}
        self.isolating = {n for n, s in self.nodes.items() if s.get("isolating")}

    # -- helpers
    def _resolve(self, name: str) -> list[str]:
        if name in self.nodes:
            found = [name]
        else:
            found = [n for n in self.node_names if name in self.groups[n]]
        if not found:
            raise rx.ParseErr(f"no node type or group {name!r}")
        for n in found:
            if self._inline_flag is None:
                self._inline_flag = self.inline[n]
            elif self._inline_flag != self.inline[n]:
                raise rx.ParseErr("mixing inline and block content")
        return found

    def _gather(self, names: list[str]) -> list[str]:
        out: list[str] = []
        for name in names:
            if name in self.marks:
                out.append(name)
                continue
            ok = False
            for m, s in self.marks.items():
                if name == "_" or (s.get("group") and name in s["group"].split(" ")):
                    ok = True
                    out.append(m)
            if not ok:
                raise SpecError(f"unknown mark {name!r}")
        return out

    # -- attrs
    def default_attrs(self, kind: str, name: str) -> dict | None:
        specs = (self.nodes if kind == "node" else self.marks)[name].get("attrs") or {}
        out = {}
        for a, sp in specs.items():
            if "default" not in sp:
                return None
            out[a] = copy.deepcopy(sp["default"])
        return out

    def compute_attrs(self, kind: str, name: str, given: dict | None) -> dict:
        """The type's defaulting: declared attrs only; None/missing -> default; required missing -> ValueError."""
        specs = (self.nodes if kind == "node" else self.marks)[name].get("attrs") or {}
        out = {}
        for a, sp in specs.items():
            v = None if not given else given.get(a)
            if v is None:
                if "default" in sp:
                    v = copy.deepcopy(sp["default"])
                else:
                    raise ValueError(f"no value for attribute {a}")
            out[a] = v
        return out

    # -- marks
    def allows_mark(self, node: str, mark: str) -> bool:
        ms = self.mark_set[node]
        return ms is None or mark in ms

    def excludes(self, a: str, b: str) -> bool:
        """mark type a excludes mark type b"""
        return b in self.excl[a]

    # -- content
    def accepts(self, node: str, types: list[str]) -> bool:
        return rx.accepts(self.content[node], types)


def fresh_spec(spec: dict) -> dict:
    """A deep copy (lambdas kept by reference) so the library cannot alias generator data."""
    out: dict[str, Any] = {}
    for k, v in spec.items():
        if k in ("nodes", "marks"):
            out[k] = {n: dict(s) for n, s in v.items()}
        else:
            out[k] = v
    return out
