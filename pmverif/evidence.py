"""evidence/<id>.json writer (EVIDENCE.schema.json, level "exploration")."""
from __future__ import annotations

import json
import os
from typing import Any

from . import env


def write_evidence(
    mod: Any,
    *,
    tier: str,
    seed: int,
    total: dict,
    wall: float,
    violations: int,
    exhaustive: bool,
    skipped: int,
    floor_warnings: list[str],
    harness: bool,
) -> str:
    labels = dict(sorted(total["labels"].items(), key=lambda kv: (-kv[1], kv[0])))
    cov: dict[str, Any] = {
        "evaluations": int(total["evaluations"]),
        "distinct_nontrivial": len(total["nontrivial"]),
        "rule": mod.RULE,
        "samples": total["samples"][:8],
        "classes": labels,
        "excluded_known": dict(total["excluded"]),
        "excluded_known_examples": total["excluded_examples"],
        "exhaustive": bool(exhaustive),
        "budget_cut_examples_skipped": skipped,
        "floor_warnings": floor_warnings,
        "tree_under_test": env.repo_dir(),
    }
    if hasattr(mod, "EXHAUSTIVE_BOUND"):
        cov["exhaustive_bound"] = mod.EXHAUSTIVE_BOUND[tier] if isinstance(mod.EXHAUSTIVE_BOUND, dict) else mod.EXHAUSTIVE_BOUND
    ev = {
        "property_id": mod.ID,
        "tier": tier,
        "seed": seed,
        "level": "exploration",
        "coverage": cov,
        "assumptions": list(getattr(mod, "ASSUMPTIONS", [])),
        "wall_s": round(wall, 2),
        "violations": violations,
        "harness_error": harness,
    }
    # PMVERIF_EVIDENCE_DIR: used by the mutant self-test so that runs against scratch copies do not overwrite evidence/
    d = os.environ.get("PMVERIF_EVIDENCE_DIR") or os.path.join(env.VERIF_DIR, "evidence")
    os.makedirs(d, exist_ok=True)
    path = os.path.join(d, f"{mod.ID}.json")
    tmp = path + ".tmp"
    with open(tmp, "w") as f:
        json.dump(ev, f, indent=1, default=repr, sort_keys=False)
        f.write("\n")
    os.replace(tmp, path)
    return path
