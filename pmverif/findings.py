"""Known findings: committed list, never written at run time.

Entry: {"id", "property", "status": "open"|"fixed", "title", "clauses": [prefixes of oracle
clause names], "predicate": name in PREDICATES, "params": {...}, "commit"?, "example"?}

A failing case is *excluded* (counted, search continues) only when an OPEN entry of the same
property lists the failing clause and its predicate holds on the case's INPUT. Predicates never
look at exception texts or library outputs. `fixed` entries suppress nothing.
"""
from __future__ import annotations

import json
import os
from typing import Any, Callable

from .env import VERIF_DIR

PREDICATES: dict[str, Callable[[dict, dict], bool]] = {}


def predicate(name: str) -> Callable:
    def deco(fn: Callable[[dict, dict], bool]) -> Callable:
        PREDICATES[name] = fn
        return fn

    return deco


_cache: list[dict] | None = None


def load() -> list[dict]:
    global _cache
    if _cache is None:
        path = os.path.join(VERIF_DIR, "known_findings.json")
        if os.path.exists(path):
            with open(path) as f:
                _cache = json.load(f)["findings"]
        else:
            _cache = []
    return _cache


def match(prop: str, clause: str, case: dict) -> dict | None:
    from . import finding_predicates  # noqa: F401, PLC0415  (registers PREDICATES)

    for f in load():
        if f["property"] != prop or f.get("status") != "open":
            continue
        if not any(clause == c or clause.startswith(c + ":") or clause.startswith(c) for c in f["clauses"]):
            continue
        pred = PREDICATES.get(f["predicate"])
        if pred is None:
            continue
        try:
            if pred(case, f.get("params") or {}):
                return f
        except Exception:  # noqa: BLE001 - a predicate that cannot evaluate does not match
            continue
    return None
