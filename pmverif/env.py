"""Process environment: which tree is under test, seeds, tiers, hash-seed pinning."""
from __future__ import annotations

import os
import sys

VERIF_DIR = os.path.dirname(os.path.dirname(os.path.abspath(__file__)))
GUARD = "FELLOWAPP_PROSEMIRROR_PY_VERIF"


def repo_dir() -> str:
    return os.path.abspath(os.environ.get("PM_REPO", "/repo"))


def seed() -> int:
    try:
        return int(os.environ.get("VERIF_SEED", "1"))
    except ValueError:
        return 1


def reexec_pinned() -> None:
    """Re-exec once with PYTHONHASHSEED=0 so set/dict-of-str iteration is reproducible."""
    if os.environ.get("PYTHONHASHSEED") != "0":
        env = dict(os.environ)
        env["PYTHONHASHSEED"] = "0"
        env.setdefault(GUARD, "1")
        os.execve(sys.executable, [sys.executable, *sys.argv], env)


def bootstrap() -> None:
    """Put the tree under test first on sys.path and verify that is what gets imported."""
    import warnings

    warnings.simplefilter("ignore")
    rd = repo_dir()
    if VERIF_DIR not in sys.path:
        sys.path.insert(0, VERIF_DIR)
    # the tree under test must win over any installed copy
    sys.path.insert(0, rd)
    import prosemirror  # noqa: PLC0415

    got = os.path.dirname(os.path.dirname(os.path.abspath(prosemirror.__file__)))
    if os.path.realpath(got) != os.path.realpath(rd):
        raise HarnessError(f"imported prosemirror from {got}, expected {rd}")


class HarnessError(Exception):
    """A problem in the checking machinery itself (exit code 2, never a VIOLATION)."""
