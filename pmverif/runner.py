"""Drive one property: regress replays, sharded Hypothesis search (+ optional exhaustive part),
failure capture, known-finding exclusion, evidence, exit codes.

exit 0  property held on everything explored (KNOWN-FINDING lines possible)
exit 1  + "VIOLATION property=<id> replay=<path>"  for a violation no open finding lists
exit 2  harness error (never prints VIOLATION)
"""
from __future__ import annotations

import collections
import glob
import importlib
import json
import multiprocessing as mp
import os
import sys
import time
import traceback
from typing import Any

from . import env, findings
from .core import Ctx, Violation, h8
from .draw import Draw
from .ref import rx

TIERS = ("quick", "thorough")


def load_prop(pid: str) -> Any:
    return importlib.import_module(f"pmverif.props.{pid.lower()}")


def budget_of(mod: Any, tier: str) -> dict:
    b = dict(mod.BUDGET[tier])
    scale = float(os.environ.get("PMVERIF_SCALE", "1"))
    if scale != 1:
        b["examples"] = max(1, int(b["examples"] * scale))
    return b


# ------------------------------------------------------------------ single case


class CaseResult:
    def __init__(self) -> None:
        self.violation: Violation | None = None
        self.finding: dict | None = None
        self.harness: str | None = None


def run_case(mod: Any, case: dict, ctx: Ctx) -> CaseResult:
    res = CaseResult()
    rx.maybe_reset()
    ctx.evaluations += 1
    ctx.begin_case()
    try:
        mod.check(case, ctx)
        ctx.end_case(case)
    except Violation as v:
        f = findings.match(mod.ID, v.clause, case)
        if f is not None:
            ctx.excluded[f["id"]] += 1
            ctx.excluded_examples.setdefault(f["id"], {"clause": v.clause, "msg": v.msg[:300]})
            res.finding = f
        else:
            res.violation = v
    except Exception:  # noqa: BLE001
        res.harness = traceback.format_exc()
    return res


# ------------------------------------------------------------------ worker (one shard)


def _case_size(case: dict) -> int:
    return len(json.dumps(case, default=repr))


def shard_worker(args: tuple) -> dict:
    pid, tier, shard, seed_base = args
    try:
        return _shard_worker(pid, tier, shard, seed_base)
    except BaseException:  # noqa: BLE001
        return {"shard": shard, "harness": traceback.format_exc(), "ctx": Ctx().dump(), "failure": None}


def _shard_worker(pid: str, tier: str, shard: int, seed_base: int) -> dict:
    import hypothesis
    from hypothesis import HealthCheck, Phase, given, settings
    from hypothesis import strategies as st

    mod = load_prop(pid)
    b = budget_of(mod, tier)
    ctx = Ctx()
    t0 = time.monotonic()
    state: dict[str, Any] = {"failure": None, "harness": None, "fail_t": None, "skipped": 0}
    shrink_budget = b.get("shrink_s", 25 if tier == "quick" else 120)
    wall = b.get("wall_s", 100 if tier == "quick" else 1500)

    def test(data: Any) -> None:
        if state["harness"] is not None:
            return
        now = time.monotonic()
        if state["fail_t"] is not None and now - state["fail_t"] > shrink_budget:
            raise KeyboardInterrupt  # shrinking budget exhausted: the smallest failing case seen so far is kept
        if state["fail_t"] is None and now - t0 > wall:
            state["skipped"] += 1
            raise KeyboardInterrupt  # wall budget hit: stop generating; inconclusive, not a violation
        over_wall = False
        try:
            case = mod.generate(Draw(data), tier)
        except Exception as e:  # noqa: BLE001
            if type(e).__module__.startswith("hypothesis"):
                raise  # StopTest / Frozen etc. belong to the engine
            state["harness"] = "generator raised:\n" + traceback.format_exc()[-1500:]
            return
        if over_wall:
            state["skipped"] += 1
            return  # wall budget hit: still draws (keeps generation consistent) but is not evaluated: inconclusive
        res = run_case(mod, case, ctx)
        if res.harness is not None:
            state["harness"] = res.harness + "\ncase: " + json.dumps(case, default=repr)[:2000]
            return
        if res.violation is not None:
            size = _case_size(case)
            cur = state["failure"]
            if cur is None or size < cur["size"]:
                state["failure"] = {
                    "size": size,
                    "case": json.loads(json.dumps(case, default=repr)),
                    "clause": res.violation.clause,
                    "msg": res.violation.msg,
                }
            if state["fail_t"] is None:
                state["fail_t"] = now
            raise res.violation

    phases = [Phase.generate, Phase.shrink]
    runner = given(st.data())(test)
    runner = hypothesis.seed(seed_base * 1000 + shard)(runner)
    runner = settings(
        max_examples=b["examples"],
        database=None,
        deadline=None,
        derandomize=False,
        report_multiple_bugs=False,
        phases=phases,
        suppress_health_check=list(HealthCheck),
        print_blob=False,
    )(runner)
    try:
        runner()
    except Violation:
        pass
    except KeyboardInterrupt:
        pass  # raised by test() above to end the run (budget), never by a user here
    except BaseException as e:  # noqa: BLE001  Flaky etc. after the shrink budget ran out
        if state["failure"] is None and state["harness"] is None:
            state["harness"] = "hypothesis raised without a recorded failure:\n" + traceback.format_exc()[:1500]
        del e
    return {
        "shard": shard,
        "harness": state["harness"],
        "failure": state["failure"],
        "ctx": ctx.dump(),
        "skipped": state["skipped"],
        "wall": time.monotonic() - t0,
    }


def _limit_memory() -> None:
    """Worker initializer: cap the address space so that runaway allocation in the code under test surfaces as
    MemoryError inside the call (classified like any other internal error) instead of the OOM killer."""
    import resource

    gb = float(os.environ.get("PMVERIF_WORKER_MEM_GB", "6"))
    try:
        resource.setrlimit(resource.RLIMIT_AS, (int(gb * 2**30), int(gb * 2**30)))
    except (ValueError, OSError):
        pass


def exhaustive_worker(args: tuple) -> dict:
    pid, tier, idx, desc = args
    t0 = time.monotonic()
    ctx = Ctx()
    out: dict[str, Any] = {"shard": f"x{idx}", "harness": None, "failure": None, "skipped": 0}
    try:
        mod = load_prop(pid)
        complete = True
        for case in mod.exhaustive_cases(desc, tier):
            res = run_case(mod, case, ctx)
            if res.harness is not None:
                out["harness"] = res.harness + "\ncase: " + json.dumps(case, default=repr)[:2000]
                complete = False
                break
            if res.violation is not None:
                out["failure"] = {
                    "size": _case_size(case),
                    "case": json.loads(json.dumps(case, default=repr)),
                    "clause": res.violation.clause,
                    "msg": res.violation.msg,
                }
                complete = False
                break
        out["complete"] = complete
    except BaseException:  # noqa: BLE001
        out["harness"] = traceback.format_exc()
        out["complete"] = False
    out["ctx"] = ctx.dump()
    out["wall"] = time.monotonic() - t0
    return out


# ------------------------------------------------------------------ orchestration


def write_replay(pid: str, failure: dict, tier: str, seed: int) -> str:
    d = os.path.join(env.VERIF_DIR, "replays")
    os.makedirs(d, exist_ok=True)
    path = os.path.join(d, f"{pid}-{h8(failure['case'])}.json")
    with open(path, "w") as f:
        json.dump(
            {
                "property": pid,
                "clause": failure["clause"],
                "message": failure["msg"],
                "tier": tier,
                "seed": seed,
                "case": failure["case"],
            },
            f,
            indent=1,
            default=repr,
        )
    return path


def merge_ctx(into: dict, part: dict) -> None:
    into["evaluations"] += part["evaluations"]
    into["labels"].update(part["labels"])
    into["nontrivial"].update(part["nontrivial_keys"])
    for s in part["samples"]:
        if len(into["samples"]) < 8:
            into["samples"].append(s)
    into["excluded"].update(part["excluded"])
    for k, v in part["excluded_examples"].items():
        into["excluded_examples"].setdefault(k, v)


def run_property(pid: str, tier: str) -> int:
    t0 = time.time()
    seed = env.seed()
    mod = load_prop(pid)
    b = budget_of(mod, tier)
    total = {
        "evaluations": 0,
        "labels": collections.Counter(),
        "nontrivial": set(),
        "samples": [],
        "excluded": collections.Counter(),
        "excluded_examples": {},
    }
    failures: list[dict] = []
    harness: list[str] = []

    # 1. regression replays first (shrunk inputs of repaired defects and seeded changes)
    rctx = Ctx()
    reg_files = sorted(glob.glob(os.path.join(env.VERIF_DIR, "regress", pid, "*.json")))
    for path in reg_files:
        with open(path) as f:
            rec = json.load(f)
        res = run_case(mod, rec["case"], rctx)
        if res.harness:
            harness.append(f"regress {path}:\n{res.harness}")
        elif res.violation:
            failures.append(
                {"size": 0, "case": rec["case"], "clause": res.violation.clause, "msg": res.violation.msg, "from": path}
            )
    part = rctx.dump()
    part["samples"] = []  # evidence samples should come from generated cases
    merge_ctx(total, part)
    total["labels"]["regress-file"] += len(reg_files)

    # 2. generated search, sharded
    jobs = [(pid, tier, s, seed) for s in range(b["shards"])]
    xjobs = []
    if hasattr(mod, "exhaustive_shards"):
        xjobs = [(pid, tier, i, d) for i, d in enumerate(mod.exhaustive_shards(tier))]
    nproc = min(int(os.environ.get("PMVERIF_PROCS", "16")), max(1, len(jobs) + len(xjobs)))
    ctxm = mp.get_context("fork")
    skipped = 0
    exhaustive_complete = bool(xjobs)
    # ProcessPoolExecutor (not multiprocessing.Pool): a worker that dies (e.g. killed for memory) breaks the pool
    # instead of hanging it; an overall deadline bounds the whole run.
    from concurrent.futures import ProcessPoolExecutor, wait
    from concurrent.futures.process import BrokenProcessPool

    overall = float(os.environ.get("PMVERIF_DEADLINE_S", "900" if tier == "quick" else "7200"))
    results = []
    ex = ProcessPoolExecutor(max_workers=nproc, mp_context=ctxm, initializer=_limit_memory)
    try:
        futs = []
        if jobs and b["examples"] > 0:
            futs += [(ex.submit(shard_worker, j), f"shard {j[2]}") for j in jobs]
        futs += [(ex.submit(exhaustive_worker, j), f"exhaustive {j[2]}") for j in xjobs]
        wait([f for f, _ in futs], timeout=overall)
        for f, name in futs:
            if not f.done():
                harness.append(f"{name}: did not finish within the overall deadline of {overall:.0f}s")
                continue
            try:
                results.append(f.result())
            except BrokenProcessPool:
                harness.append(f"{name}: worker process died (killed or crashed the interpreter)")
            except Exception:  # noqa: BLE001
                harness.append(f"{name}:\n{traceback.format_exc()[-1500:]}")
    finally:
        for pr in list(getattr(ex, "_processes", {}).values()):
            if pr.is_alive():
                pr.terminate()
        ex.shutdown(wait=False, cancel_futures=True)
    if os.environ.get("PMVERIF_DEBUG"):
        for r in results:
            print(f"  shard {r['shard']}: wall={r.get('wall', 0):.1f}s evals={r['ctx']['evaluations']} skipped={r.get('skipped')}", file=sys.stderr)
    for r in results:
        merge_ctx(total, r["ctx"])
        skipped += r.get("skipped", 0)
        if r.get("harness"):
            harness.append(f"shard {r['shard']}:\n{r['harness']}")
        if r.get("failure"):
            failures.append(r["failure"])
        if str(r["shard"]).startswith("x") and not r.get("complete"):
            exhaustive_complete = False

    # 3. verdict
    by_clause: dict[str, dict] = {}
    for fl in failures:
        cur = by_clause.get(fl["clause"])
        if cur is None or fl["size"] < cur["size"]:
            by_clause[fl["clause"]] = fl
    replay_paths = []
    for clause, fl in sorted(by_clause.items()):
        path = write_replay(pid, fl, tier, seed)
        replay_paths.append(path)
        print(f"VIOLATION property={pid} replay={path}")
        print(f"  clause={clause} {fl['msg'][:400]}", file=sys.stderr)
    known = {f["id"]: f for f in findings.load()}
    for fid, n in sorted(total["excluded"].items()):
        print(f"KNOWN-FINDING: property={pid} {known[fid]['title']} [{fid}; {n} cases excluded]")

    floors = getattr(mod, "FLOORS", {})
    floor_warnings = []
    for lab, mins in floors.items():
        need = mins[0] if tier == "quick" else mins[1]
        need = int(need * float(os.environ.get("PMVERIF_SCALE", "1")))
        if total["labels"].get(lab, 0) < need and not skipped:
            floor_warnings.append(f"{lab}: {total['labels'].get(lab, 0)} < {need}")
    for w in floor_warnings:
        print(f"generator floor not met: {w}", file=sys.stderr)

    wall = time.time() - t0
    from .evidence import write_evidence  # noqa: PLC0415

    write_evidence(
        mod,
        tier=tier,
        seed=seed,
        total=total,
        wall=wall,
        violations=len(by_clause),
        exhaustive=exhaustive_complete and not by_clause,
        skipped=skipped,
        floor_warnings=floor_warnings,
        harness=bool(harness),
    )
    seen_h = set()
    for h in harness:
        key = h.split("\n", 1)[-1][:300]
        if key in seen_h:
            continue
        seen_h.add(key)
        print("HARNESS ERROR\n" + h[:3000], file=sys.stderr)
    print(
        f"{pid} {tier}: evaluations={total['evaluations']} distinct_nontrivial={len(total['nontrivial'])} "
        f"excluded_known={sum(total['excluded'].values())} violations={len(by_clause)} wall={wall:.1f}s"
        + (f" (budget cut: {skipped} examples skipped)" if skipped else ""),
        file=sys.stderr,
    )
    if by_clause:
        return 1
    if harness:
        return 2
    if floor_warnings and os.environ.get("PMVERIF_STRICT_FLOORS") == "1":
        return 2
    return 0


def replay(pid: str, path: str) -> int:
    mod = load_prop(pid)
    with open(path) as f:
        rec = json.load(f)
    ctx = Ctx()
    res = run_case(mod, rec["case"], ctx)
    if res.harness:
        print("HARNESS ERROR\n" + res.harness, file=sys.stderr)
        return 2
    if res.finding:
        print(f"KNOWN-FINDING: property={pid} {res.finding['title']} [{res.finding['id']}]")
        return 0
    if res.violation:
        print(f"VIOLATION property={pid} replay={path}")
        print(f"  clause={res.violation.clause} {res.violation.msg}", file=sys.stderr)
        return 1
    print(f"{pid}: replay passes ({path})", file=sys.stderr)
    return 0


def main(argv: list[str]) -> int:
    if len(argv) < 2:
        print("usage: check <Cxx> quick|thorough | check <Cxx> --replay <file>", file=sys.stderr)
        return 2
    pid = argv[0].upper()
    try:
        env.bootstrap()
    except Exception:  # noqa: BLE001
        print("HARNESS ERROR: cannot import the tree under test\n" + traceback.format_exc(), file=sys.stderr)
        return 2
    if argv[1] == "--replay":
        return replay(pid, argv[2])
    tier = argv[1]
    if tier not in TIERS:
        print(f"unknown tier {tier}", file=sys.stderr)
        return 2
    vt = os.environ.get("VERIF_TIER")
    if vt and vt != tier:
        print(f"note: VERIF_TIER={vt} ignored, running {tier}", file=sys.stderr)
    try:
        return run_property(pid, tier)
    except Exception:  # noqa: BLE001
        print("HARNESS ERROR\n" + traceback.format_exc(), file=sys.stderr)
        return 2
