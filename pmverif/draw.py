"""A thin drawing interface over Hypothesis `data` so generators are plain Python.

Every random choice in every generator goes through one of these methods, i.e. through a
Hypothesis draw: cases shrink and replay, and a run is a pure function of the seed.
"""
from __future__ import annotations

from fractions import Fraction
from typing import Any, Sequence

from hypothesis import strategies as st


class Draw:
    def __init__(self, data: Any) -> None:
        self._d = data

    def int(self, lo: int, hi: int) -> int:
        if hi <= lo:
            return lo
        return self._d.draw(st.integers(lo, hi))

    def bool(self, p: float = 0.5) -> bool:
        # expressed through an integer draw so that "False" is the shrink target
        if p >= 1:
            return True
        if p <= 0:
            return False
        fr = Fraction(p).limit_denominator(20)
        if fr.numerator == 0:
            fr = Fraction(1, 20)
        # small denominators keep the choice -> value mapping nearly one-to-one (fewer duplicate cases)
        return self._d.draw(st.integers(0, fr.denominator - 1)) >= fr.denominator - fr.numerator

    def choice(self, seq: Sequence[Any]) -> Any:
        if not seq:
            raise IndexError("choice from empty sequence")
        if len(seq) == 1:
            return seq[0]
        return seq[self._d.draw(st.integers(0, len(seq) - 1))]

    def weighted(self, pairs: Sequence[tuple[Any, int]]) -> Any:
        total = sum(w for _, w in pairs)
        k = self.int(0, total - 1)
        for v, w in pairs:
            if k < w:
                return v
            k -= w
        return pairs[-1][0]

    def sample(self, seq: Sequence[Any], k: int) -> list:
        pool = list(seq)
        out = []
        for _ in range(min(k, len(pool))):
            out.append(pool.pop(self.int(0, len(pool) - 1)))
        return out

    def shuffle(self, seq: Sequence[Any]) -> list:
        return self.sample(seq, len(seq))

    def draw(self, strategy: Any) -> Any:
        return self._d.draw(strategy)


class RandomDraw(Draw):
    """Same interface over random.Random — used only by notes/probes and selfcheck, never by a check."""

    def __init__(self, rng: Any) -> None:
        self._r = rng

    def int(self, lo: int, hi: int) -> int:
        return lo if hi <= lo else self._r.randint(lo, hi)

    def bool(self, p: float = 0.5) -> bool:
        return self._r.random() < p

    def choice(self, seq: Sequence[Any]) -> Any:
        return seq[self._r.randrange(len(seq))]

    def draw(self, strategy: Any) -> Any:
        return strategy.example()
