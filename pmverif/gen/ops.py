"""Transform operation descriptors: generation (steered by the current document) and execution.

A descriptor is plain JSON, e.g. {"op":"replace","from":3,"to":7,"slice":{c,os,oe}}.
apply_op() performs it on a Transform; everything the library raises propagates to the caller.
Library helpers are used here only to *steer* generation (choose arguments that are likely to be
approved); they never influence a verdict.
"""
from __future__ import annotations

import copy
from typing import Any

from ..core import Hang, time_limit
from ..draw import Draw
from ..ref import plain as P
from ..ref.schema import RefSchema
from . import steps as gs
from .docs import DocGen

ALL_OPS = [
    "replace",
    "replace_with",
    "insert",
    "delete",
    "replace_range",
    "replace_range_with",
    "delete_range",
    "add_mark",
    "remove_mark",
    "split",
    "join",
    "lift",
    "wrap",
    "set_block_type",
    "set_node_markup",
    "set_node_attribute",
    "set_doc_attribute",
    "add_node_mark",
    "remove_node_mark",
    "step",
]
REPLACE_FAMILY = ["replace", "replace_with", "insert", "delete", "replace_range", "replace_range_with", "delete_range"]


def quiet(fn, *a, default=None, **kw):  # noqa: ANN001, ANN002, ANN003, ANN201
    """Run a steering call; any failure (including a hang) just means 'no candidate'."""
    try:
        with time_limit(1.0):
            return fn(*a, **kw)
    except (Exception, Hang):  # noqa: BLE001
        return default


def _node_content(R: Draw, g: DocGen, inline_ok: bool = True) -> list[dict]:
    """Content for replace_with / insert: 1-2 nodes."""
    rs = g.rs
    pool = [t for t in rs.node_names if t != rs.top and (inline_ok or not rs.inline[t])]
    out = []
    for _ in range(R.weighted([(1, 4), (2, 1)])):
        t = R.choice(pool)
        pool = [x for x in pool if rs.inline[x] == rs.inline[t]]  # siblings: all inline or all block
        if t == "text":
            out.append(P.mk("text", {}, None, [], g.text(R)))
        else:
            out.append(g.node(R, t, 1, 4))
    from .mutate import normalize_children

    if R.bool(0.16):
        # the list form of the API takes unmerged neighbours too: three text nodes with the same marks (Fragment.from_
        # has to join them)
        ms = g.mark_set(R, rs.top, 0.0)
        return [P.mk("text", {}, None, ms, g.text(R)) for _ in range(3)]
    return normalize_children(out)


def _positions(R: Draw, n: int, span: int = 10) -> tuple[int, int]:
    a = R.int(0, n)
    return a, R.int(a, min(n, a + R.int(0, span)))


def _landmark_range(R: Draw, doc_node: Any, n: int, span: int = 20) -> tuple[int, int]:
    """Both ends on structural landmarks: just before / after a node, at the start / at the very end of its content.
    Edits whose ends coincide with such boundaries (a range ending at the end of a deep textblock, covering exactly
    a node's content, starting between blocks) take paths that uniformly drawn positions rarely reach."""
    marks: set[int] = {0, n}
    for pos, nd in _node_positions(doc_node):
        if nd.is_text:
            marks.update((pos, pos + nd.node_size))
        else:
            marks.update((pos, pos + 1, pos + nd.node_size - 1, pos + nd.node_size) if not nd.is_leaf else (pos, pos + 1))
    lm = sorted(m for m in marks if 0 <= m <= n)
    if R.bool(0.3):
        # end exactly at the end of a deeply nested textblock, start on a landmark somewhere before it
        deep = [pos + nd.node_size - 1 for pos, nd in _node_positions(doc_node) if nd.is_textblock and doc_node.resolve(pos).depth >= 2]
        if deep:
            b = R.choice(deep)
            before = [m for m in lm if b - 30 <= m <= b]
            return (R.choice(before) if before else b), b
    a = R.choice(lm)
    if R.bool(0.2):
        # start a character or two INTO a textblock (not on a landmark), end on a landmark further on
        starts = [pos + 1 + k for pos, nd in _node_positions(doc_node) if nd.is_textblock for k in (1, 2) if k <= nd.content.size]
        if starts:
            a = R.choice(starts)
    later = [m for m in lm if a <= m <= a + span]
    b = R.choice(later) if later and R.bool(0.85) else R.int(a, min(n, a + R.int(0, span)))
    if R.bool(0.15):
        a = max(0, min(b, a + R.choice([-1, 1])))
    return a, b


def _node_positions(doc_node: Any) -> list[tuple[int, Any]]:
    out: list[tuple[int, Any]] = []
    doc_node.descendants(lambda node, pos, parent, index: out.append((pos, node)) and None)
    return out


def gen_op(R: Draw, g: DocGen, lib: Any, doc_node: Any, kinds: list[str] | None = None, steer: float = 0.7) -> dict:
    """One operation descriptor for the current document."""
    from prosemirror.transform import can_join, can_split, find_wrapping, join_point, lift_target

    rs: RefSchema = g.rs
    n = doc_node.content.size
    kind = R.choice(kinds or ALL_OPS)
    use = R.bool(steer)
    if kind in ("add_mark", "remove_mark", "add_node_mark", "remove_node_mark") and not rs.mark_names:
        kind = "delete"
    if use and kind in ("replace", "replace_range", "replace_with", "insert") and rs.mark_names and R.bool(0.12):
        # marked inline content sent into a textblock that forbids (some of) its marks: the fitter has to strip exactly
        # the forbidden ones
        from ..ref import marks as rm

        spots = []
        for pos, nd in _node_positions(doc_node):
            if nd.is_textblock:
                forb = [m for m in rs.mark_names if not rs.allows_mark(nd.type.name, m)]
                if forb:
                    spots.append((pos, nd, forb))
        if spots:
            pos, nd, forb = R.choice(spots)
            ms: list = []
            for m in R.shuffle(list(rs.mark_names)):
                if m in forb or R.bool(0.4):
                    ms = rm.ref_add(rs, g.mark(R, m), ms)
            piece = P.mk("text", {}, None, ms, g.text(R))
            a = R.int(pos + 1, pos + nd.node_size - 1)
            b = R.int(a, min(pos + nd.node_size - 1, a + R.int(0, 3)))
            if kind in ("replace_with", "insert"):
                pieces = [piece]
                if R.bool(0.5):
                    # several neighbours that differ ONLY in forbidden marks: once those are stripped they are equal
                    # and have to be joined into one text node
                    keep = [m for m in ms if m[0] not in forb]
                    for _ in range(R.int(1, 3)):
                        extra: list = list(keep)
                        for m in R.shuffle(list(forb)):
                            if R.bool(0.6):
                                extra = rm.ref_add(rs, g.mark(R, m), extra)
                        if extra != pieces[-1]["m"]:
                            pieces.append(P.mk("text", {}, None, extra, g.text(R)))
                return {"op": kind, "from": a, "to": b, "content": pieces} if kind == "replace_with" else {"op": kind, "pos": a, "content": pieces}
            hosts = [t for t in rs.node_names if rs.textblock.get(t) and all(rs.allows_mark(t, m[0]) for m in ms) and rs.generatable[t]]
            if hosts and R.bool(0.5):
                h = R.choice(hosts)
                return {"op": kind, "from": a, "to": b, "slice": {"c": [P.mk(h, rs.default_attrs("node", h) or {}, [piece])], "os": 1, "oe": 1}}
            return {"op": kind, "from": a, "to": b, "slice": {"c": [piece], "os": 0, "oe": 0}}
    if kind == "replace" or kind == "replace_range":
        a, b = _landmark_range(R, doc_node, n) if use and R.bool(0.45) else _positions(R, n)
        return {"op": kind, "from": a, "to": b, "slice": gs.rand_slice(R, g, R.choice(["tiny", "small"])) if R.bool(0.8) else gs.closed_slice(R, g)}
    if kind == "replace_with":
        a, b = _landmark_range(R, doc_node, n) if use and R.bool(0.45) else _positions(R, n)
        return {"op": kind, "from": a, "to": b, "content": _node_content(R, g)}
    if kind == "insert":
        return {"op": kind, "pos": R.int(0, n), "content": _node_content(R, g)}
    if kind in ("delete", "delete_range"):
        a, b = _landmark_range(R, doc_node, n) if use and R.bool(0.45) else _positions(R, n, 14)
        if use and R.bool(0.2):
            # from a few characters into one textblock to somewhere inside a LATER textblock that is nested deeper (or
            # shallower): the ends of the range sit at different depths and neither is on a node boundary
            tbs = [(pos, nd, doc_node.resolve(pos + 1).depth) for pos, nd in _node_positions(doc_node) if nd.is_textblock and nd.content.size]
            if len(tbs) >= 2:
                i = R.int(0, len(tbs) - 2)
                pos1, nd1, d1 = tbs[i]
                later = [t for t in tbs[i + 1 :] if t[2] != d1] or tbs[i + 1 :]
                pos2, nd2, d2 = R.choice(later)
                k = abs(d2 - d1) if d2 != d1 and R.bool(0.7) else R.int(0, 2)
                a = pos1 + 1 + min(k, nd1.content.size)
                b = pos2 + 1 + R.int(0, nd2.content.size)
        return {"op": kind, "from": a, "to": b}
    if kind == "replace_range_with":
        a, b = _landmark_range(R, doc_node, n) if use and R.bool(0.45) else _positions(R, n)
        if R.bool(0.5):
            b = a
        node = _node_content(R, g)[0]
        if use and R.bool(0.45):
            # an insertion point search: a cursor at the start / end of a textblock (or in an empty one) and a block
            # node of a type that some ancestor - not necessarily the nearest - accepts
            ends = [q for pos, nd in _node_positions(doc_node) if nd.is_textblock for q in (pos + 1, pos + nd.node_size - 1)]
            anc = sorted({nd.type.name for _, nd in _node_positions(doc_node) if not nd.is_inline and not nd.is_text})
            if ends and anc:
                a = b = R.choice(ends)
                tname = R.choice(anc)
                if R.bool(0.7):
                    # prefer (cursor, type) pairs where the nearest container refuses the type and an outer one takes
                    # it: the search has to climb (the library's own predicate is used for steering only)
                    climbs = []
                    for e in R.sample(ends, min(len(ends), 6)):
                        rp = quiet(doc_node.resolve, e)
                        if rp is None or rp.depth < 2:
                            continue
                        at_end = e == rp.end()
                        for t in anc:
                            accepts = []
                            beyond = []  # siblings on the far side of the cursor at each level
                            for d in range(rp.depth - 1, -1, -1):
                                i = rp.index_after(d) if at_end else rp.index(d)
                                accepts.append(bool(quiet(rp.node(d).can_replace_with, i, i, lib.nodes[t], default=False)))
                                beyond.append(rp.node(d).child_count - i if at_end else i)
                            if not accepts[0] and any(accepts[1:]):
                                k = accepts.index(True)
                                climbs.append((min(max(beyond[:k]), 2), e, t))
                    if climbs:
                        cls = R.choice(sorted({c[0] for c in climbs}))  # 0, 1 or more siblings in the way
                        _c, e, tname = R.choice([c for c in climbs if c[0] == cls])
                        a = b = e
                node = g.node(R, tname, 1, 4)
        return {"op": kind, "from": a, "to": b, "node": node}
    if kind in ("add_mark", "remove_mark"):
        a, b = _positions(R, n, 16)
        if use:
            # ranges that start and end inside inline content (splitting text, possibly crossing blocks)
            blocks = [(p + 1, p + 1 + nd.content.size) for p, nd in _node_positions(doc_node) if nd.inline_content and nd.content.size]
            if blocks:
                i = R.int(0, len(blocks) - 1)
                j = min(len(blocks) - 1, i + R.weighted([(0, 6), (1, 3), (2, 1)]))
                a = R.int(blocks[i][0], blocks[i][1])
                b = R.int(max(a, blocks[j][0]), blocks[j][1]) if blocks[j][1] >= a else a
        if kind == "add_mark":
            mname = R.choice(rs.mark_names)
            if use and R.bool(0.6):
                # a mark that interacts with marks already present: same type (other attrs), excludes / is excluded
                present = sorted({mk_.type.name for _, nd in _node_positions(doc_node) for mk_ in nd.marks})
                inter = [m for m in rs.mark_names if m in present or any(rs.excludes(m, x) or rs.excludes(x, m) for x in present)]
                if inter:
                    mname = R.choice(inter)
            return {"op": kind, "from": a, "to": b, "mark": g.mark(R, mname)}
        how = R.weighted([("mark", 4), ("type", 3), ("all", 2)])
        m = None
        if use:
            present = [P.plain_mark(mk_) for _, nd in _node_positions(doc_node) for mk_ in nd.marks]
            if present:
                m = R.choice(present)
        m = m or g.mark(R, R.choice(rs.mark_names))
        return {"op": kind, "from": a, "to": b, "mark": m if how == "mark" else None, "type": m[0] if how == "type" else None}
    if kind == "split":
        pos, depth = R.int(0, n), R.weighted([(1, 6), (2, 3), (3, 1)])
        if use:
            for _ in range(6):
                p, d = R.int(0, n), R.weighted([(1, 6), (2, 3), (3, 1)])
                if quiet(can_split, doc_node, p, d, default=False):
                    pos, depth = p, d
                    break
        types_after = None
        if R.bool(0.25):
            pool = [t for t in rs.node_names if not rs.leaf[t] and t != rs.top and rs.generatable[t]]
            if pool:
                types_after = [[R.choice(pool), None] for _ in range(R.int(1, depth))]
        return {"op": kind, "pos": pos, "depth": depth, "types_after": types_after}
    if kind == "join":
        pos, depth = R.int(0, n), 1
        if use:
            for _ in range(6):
                p = R.int(0, n)
                if quiet(can_join, doc_node, p, default=False):
                    pos = p
                    break
                jp = quiet(join_point, doc_node, p, R.choice([-1, 1]))
                if jp is not None:
                    pos = jp
                    break
        if R.bool(0.1):
            depth = 2
        return {"op": kind, "pos": pos, "depth": depth}
    if kind in ("lift", "wrap"):
        a, b = _positions(R, n, 12)
        target = R.int(0, 2)
        wrappers = None
        conts = [t for t in rs.node_names if not rs.leaf[t] and not rs.inline_content[t] and t != rs.top]
        if kind == "wrap":
            wt = R.choice(conts) if conts else rs.top
            wrappers = [[wt, g.attrs(R, "node", wt)]]
        if use:
            best = -1
            for _ in range(10 if kind == "lift" else 6):
                x, y = _positions(R, n, 12)
                rng = quiet(lambda x=x, y=y: doc_node.resolve(x).block_range(doc_node.resolve(y)))
                if rng is None:
                    continue
                if kind == "lift":
                    t = quiet(lift_target, rng)
                    if t is not None:
                        # prefer lifts over several levels out of the MIDDLE of their parents: both sides of every
                        # crossed ancestor have to be split off (slices open by more than one level on both sides)
                        score = 2 * min(rng.depth - t, 3) + (1 if rng.start_index > 0 else 0) + (1 if rng.end_index < rng.parent.child_count else 0)
                        if score > best:
                            best, a, b, target = score, x, y, t
                        if best >= 7 or (best >= 0 and R.bool(0.25)):
                            break
                else:
                    wt = R.choice(conts) if conts else rs.top
                    attrs = g.attrs(R, "node", wt)
                    w = quiet(find_wrapping, rng, lib.nodes[wt], attrs)
                    if w is not None:
                        a, b = x, y
                        wrappers = [[x_.type.name, copy.deepcopy(x_.attrs)] for x_ in w]
                        break
        if kind == "lift":
            return {"op": kind, "from": a, "to": b, "target": target}
        return {"op": kind, "from": a, "to": b, "wrappers": wrappers}
    if kind == "set_block_type":
        a, b = _positions(R, n, 16)
        tbs = [t for t in rs.node_names if rs.textblock[t]]
        t = R.choice(tbs) if tbs and R.bool(0.95) else R.choice(rs.node_names)
        return {"op": kind, "from": a, "to": b, "type": t, "attrs": g.attrs(R, "node", t) if t != "text" else None}
    nodes = _node_positions(doc_node)
    if kind == "set_node_markup":
        pos = R.choice(nodes)[0] if nodes and use else R.int(0, n)
        t = None
        if R.bool(0.6):
            t = R.choice([x for x in rs.node_names if x != "text"])
        nd = quiet(doc_node.node_at, pos)
        tn = t or (nd.type.name if nd is not None else rs.top)
        attrs = g.attrs(R, "node", tn) if tn != "text" else None
        marks = None
        if R.bool(0.2) and rs.mark_names:
            marks = g.mark_set(R, rs.top, 1.0)
        return {"op": kind, "pos": pos, "type": t, "attrs": attrs, "marks": marks}
    if kind == "set_node_attribute":
        pos = R.choice(nodes)[0] if nodes and use else R.int(0, n)
        nd = quiet(doc_node.node_at, pos)
        declared = sorted(nd.attrs) if nd is not None else []
        attr = R.choice(declared) if declared and R.bool(0.85) else "undeclared"
        return {"op": kind, "pos": pos, "attr": attr, "value": g.attr_value(R, attr) if attr != "undeclared" and R.bool(0.8) else copy.deepcopy(R.choice(gs._JSON_VALUES))}
    if kind == "set_doc_attribute":
        declared = sorted(rs.nodes[rs.top].get("attrs") or {})
        attr = R.choice(declared) if declared and R.bool(0.85) else "undeclared"
        return {"op": kind, "attr": attr, "value": copy.deepcopy(R.choice(gs._JSON_VALUES))}
    if kind in ("add_node_mark", "remove_node_mark"):
        pos = R.choice(nodes)[0] if nodes and use else R.int(0, n)
        m = g.mark(R, R.choice(rs.mark_names))
        if kind == "remove_node_mark" and use:
            nd = quiet(doc_node.node_at, pos)
            if nd is not None and nd.marks:
                m = P.plain_mark(R.choice(list(nd.marks)))
        by_type = kind == "remove_node_mark" and R.bool(0.3)
        return {"op": kind, "pos": pos, "mark": None if by_type else m, "type": m[0] if by_type else None}
    # raw step
    doc_plain = P.plain(doc_node)
    return {"op": "step", "step": gs.random_step(R, g, doc_plain, n)}


def apply_op(tr: Any, lib: Any, op: dict) -> Any:
    """Perform op on Transform tr. Raises whatever the library raises; returns tr."""
    from prosemirror.transform.structure import NodeTypeWithAttrs

    k = op["op"]
    if k == "replace":
        return tr.replace(op["from"], op["to"], P.build_slice(lib, op["slice"]))
    if k == "replace_range":
        return tr.replace_range(op["from"], op["to"], P.build_slice(lib, op["slice"]))
    if k == "replace_with":
        return tr.replace_with(op["from"], op["to"], [P.build(lib, c) for c in op["content"]])
    if k == "insert":
        return tr.insert(op["pos"], [P.build(lib, c) for c in op["content"]])
    if k == "delete":
        return tr.delete(op["from"], op["to"])
    if k == "delete_range":
        return tr.delete_range(op["from"], op["to"])
    if k == "replace_range_with":
        return tr.replace_range_with(op["from"], op["to"], P.build(lib, op["node"]))
    if k == "add_mark":
        return tr.add_mark(op["from"], op["to"], P.build_mark(lib, op["mark"]))
    if k == "remove_mark":
        arg = None
        if op.get("mark") is not None:
            arg = P.build_mark(lib, op["mark"])
        elif op.get("type") is not None:
            arg = lib.marks[op["type"]]
        return tr.remove_mark(op["from"], op["to"], arg)
    if k == "split":
        ta = None
        if op.get("types_after"):
            ta = [NodeTypeWithAttrs(lib.nodes[t], a) for t, a in op["types_after"]]
        return tr.split(op["pos"], op["depth"], ta)
    if k == "join":
        return tr.join(op["pos"], op["depth"])
    if k in ("lift", "wrap"):
        rng = tr.doc.resolve(op["from"]).block_range(tr.doc.resolve(op["to"]))
        if rng is None:
            raise ValueError("no block range (operation not applicable)")
        if k == "lift":
            return tr.lift(rng, op["target"])
        return tr.wrap(rng, [NodeTypeWithAttrs(lib.nodes[t], copy.deepcopy(a)) for t, a in op["wrappers"]])
    if k == "set_block_type":
        return tr.set_block_type(op["from"], op["to"], lib.nodes[op["type"]], copy.deepcopy(op["attrs"]))
    if k == "set_node_markup":
        marks = None if op.get("marks") is None else [P.build_mark(lib, m) for m in op["marks"]]
        return tr.set_node_markup(op["pos"], None if op["type"] is None else lib.nodes[op["type"]], copy.deepcopy(op["attrs"]), marks)
    if k == "set_node_attribute":
        return tr.set_node_attribute(op["pos"], op["attr"], copy.deepcopy(op["value"]))
    if k == "set_doc_attribute":
        return tr.set_doc_attribute(op["attr"], copy.deepcopy(op["value"]))
    if k == "add_node_mark":
        return tr.add_node_mark(op["pos"], P.build_mark(lib, op["mark"]))
    if k == "remove_node_mark":
        arg = P.build_mark(lib, op["mark"]) if op.get("mark") is not None else lib.marks[op["type"]]
        return tr.remove_node_mark(op["pos"], arg)
    if k == "step":
        return tr.step(gs.build_step(lib, op["step"]))
    raise ValueError(k)


def run_history(lib: Any, doc_node: Any, ops: list[dict]) -> tuple[Any, list]:
    """Apply ops in order on a fresh Transform (steering only): returns (transform, per-op status)."""
    from prosemirror.transform import Transform

    tr = Transform(doc_node)
    status = []
    for op in ops:
        try:
            with time_limit(2.0):
                apply_op(tr, lib, op)
            status.append("ok")
        except Hang:
            status.append("hang")
            break
        except ValueError:
            status.append("rejected")
        except Exception as e:  # noqa: BLE001
            status.append("crash:" + type(e).__name__)
            break
    return tr, status


def op_in_domain(rs: RefSchema, doc_plain: dict, op: dict, declared_attrs_only: bool = False) -> bool:
    """Operations whose *own payload* is invalid are outside every property's domain:
    set_node_markup that turns a leaf into a non-leaf type re-inserts an empty container (not a valid node)."""
    if op["op"] == "set_node_markup" and op.get("type"):
        from ..ref import resolve as RR

        tgt = RR.node_at(RR.N(doc_plain, rs), op["pos"])
        if tgt is not None and rs.leaf[tgt["t"]] and not rs.leaf[op["type"]]:
            return False
    if declared_attrs_only and op["op"] == "set_node_attribute":
        from ..ref import resolve as RR

        tgt = RR.node_at(RR.N(doc_plain, rs), op["pos"])
        if tgt is None or op["attr"] not in (rs.nodes[tgt["t"]].get("attrs") or {}):
            return False
    return True
