"""Step descriptors (plain data), building library steps from them and reading them back.

{"k":"replace","from","to","slice":{c,os,oe},"structure"}
{"k":"around","from","to","gapFrom","gapTo","slice","insert","structure"}
{"k":"addMark"|"removeMark","from","to","mark":[name,attrs]}
{"k":"addNodeMark"|"removeNodeMark","pos","mark"}
{"k":"attr","pos","attr","value"}     {"k":"docAttr","attr","value"}
"""
from __future__ import annotations

import copy
from typing import Any

from ..draw import Draw
from ..ref import plain as P
from ..ref import splice as S
from ..ref.schema import RefSchema
from .docs import DocGen

EMPTY_SLICE = {"c": [], "os": 0, "oe": 0}
JSON_ID = {
    "replace": "replace",
    "around": "replaceAround",
    "addMark": "addMark",
    "removeMark": "removeMark",
    "addNodeMark": "addNodeMark",
    "removeNodeMark": "removeNodeMark",
    "attr": "attr",
    "docAttr": "docAttr",
}


def build_step(lib: Any, d: dict) -> Any:
    from prosemirror.transform import (
        AddMarkStep,
        AddNodeMarkStep,
        AttrStep,
        RemoveMarkStep,
        RemoveNodeMarkStep,
        ReplaceAroundStep,
        ReplaceStep,
    )
    from prosemirror.transform.doc_attr_step import DocAttrStep

    k = d["k"]
    if k == "replace":
        return ReplaceStep(d["from"], d["to"], P.build_slice(lib, d["slice"]), d.get("structure", False))
    if k == "around":
        return ReplaceAroundStep(
            d["from"], d["to"], d["gapFrom"], d["gapTo"], P.build_slice(lib, d["slice"]), d["insert"], d.get("structure", False)
        )
    if k == "addMark":
        return AddMarkStep(d["from"], d["to"], P.build_mark(lib, d["mark"]))
    if k == "removeMark":
        return RemoveMarkStep(d["from"], d["to"], P.build_mark(lib, d["mark"]))
    if k == "addNodeMark":
        return AddNodeMarkStep(d["pos"], P.build_mark(lib, d["mark"]))
    if k == "removeNodeMark":
        return RemoveNodeMarkStep(d["pos"], P.build_mark(lib, d["mark"]))
    if k == "attr":
        return AttrStep(d["pos"], d["attr"], copy.deepcopy(d["value"]))
    if k == "docAttr":
        return DocAttrStep(d["attr"], copy.deepcopy(d["value"]))
    raise ValueError(k)


def describe_step(step: Any) -> dict:
    """Plain view of a library step (attribute reads only)."""
    n = type(step).__name__
    if n == "ReplaceStep":
        return {"k": "replace", "from": step.from_, "to": step.to, "slice": P.plain_slice(step.slice), "structure": bool(step.structure)}
    if n == "ReplaceAroundStep":
        return {
            "k": "around",
            "from": step.from_,
            "to": step.to,
            "gapFrom": step.gap_from,
            "gapTo": step.gap_to,
            "slice": P.plain_slice(step.slice),
            "insert": step.insert,
            "structure": bool(step.structure),
        }
    if n in ("AddMarkStep", "RemoveMarkStep"):
        return {"k": "addMark" if n == "AddMarkStep" else "removeMark", "from": step.from_, "to": step.to, "mark": P.plain_mark(step.mark)}
    if n in ("AddNodeMarkStep", "RemoveNodeMarkStep"):
        return {"k": "addNodeMark" if n == "AddNodeMarkStep" else "removeNodeMark", "pos": step.pos, "mark": P.plain_mark(step.mark)}
    if n == "AttrStep":
        return {"k": "attr", "pos": step.pos, "attr": step.attr, "value": copy.deepcopy(step.value)}
    if n == "DocAttrStep":
        return {"k": "docAttr", "attr": step.attr, "value": copy.deepcopy(step.value)}
    raise ValueError(n)


def touched_hull(d: dict) -> tuple[int, int] | None:
    """[lo, hi] token-position hull a step touches in the document it applies to (None: whole-document step)."""
    k = d["k"]
    if k in ("replace", "around", "addMark", "removeMark"):
        return (d["from"], d["to"])
    if k in ("addNodeMark", "removeNodeMark", "attr"):
        return (d["pos"], d["pos"] + 1)
    return None


# ------------------------------------------------------------------ random / perturbed steps

_JSON_VALUES = [None, 0, 1, 2, 3.5, "x", "", "\U0001F600", [1, [2]], {"k": [1, {"z": None}]}]


def rand_slice(R: Draw, g: DocGen, size: str = "tiny") -> dict:
    rs = g.rs
    src = g.doc(R, size)
    T = P.tokens_of(src["c"], rs.leaf_types)
    dd = S.depth_table(T)
    deep = [p for p in range(len(dd)) if dd[p] > 0]
    for _ in range(4):
        a = R.int(0, len(T))
        if deep and R.bool(0.6):
            a = R.choice(deep)
        b = R.int(a, min(len(T), a + R.int(0, 10)))
        if deep and R.bool(0.5):
            later = [p for p in deep if a <= p <= a + 14]
            crossing = [p for p in later if min(dd[a : p + 1]) < min(dd[a], dd[p])]
            if crossing and R.bool(0.8):
                b = R.choice(crossing)
            elif later:
                b = R.choice(later)
        sl = S.ref_slice(T, a, b)
        if sl is not None:
            return sl
    return dict(EMPTY_SLICE)


def closed_slice(R: Draw, g: DocGen) -> dict:
    """A closed slice of 1-2 whole nodes of random types."""
    rs = g.rs
    out = []
    pool = [n for n in rs.node_names if n != rs.top]
    for _ in range(R.int(1, 2)):
        t = R.choice(pool)
        # siblings are either all inline or all block (a mixed fragment cannot be the content of any node)
        pool = [n for n in pool if rs.inline[n] == rs.inline[t]]
        out.append(P.mk("text", {}, None, [], g.text(R)) if t == "text" else g.node(R, t, 1, 4))
    from .mutate import normalize_children

    return {"c": normalize_children(out), "os": 0, "oe": 0}


def random_step(R: Draw, g: DocGen, doc: dict, n: int) -> dict:
    """All fields random but inside the document; ordering violations only when asked via `wild`."""
    rs: RefSchema = g.rs
    k = R.weighted(
        [("replace", 4), ("around", 4), ("addMark", 2), ("removeMark", 2), ("addNodeMark", 2), ("removeNodeMark", 1), ("attr", 2), ("docAttr", 1)]
    )
    if k in ("addMark", "removeMark", "addNodeMark", "removeNodeMark") and not rs.mark_names:
        k = "replace"
    wild = R.bool(0.08)

    def pos() -> int:
        return R.int(0, n)

    if k == "replace":
        a = pos()
        b = pos() if wild else R.int(a, min(n, a + R.int(0, 8)))
        sl = rand_slice(R, g) if R.bool(0.7) else closed_slice(R, g)
        return {"k": k, "from": a, "to": b, "slice": sl, "structure": R.bool(0.2)}
    if k == "around":
        a = pos()
        b = R.int(a, min(n, a + R.int(0, 10)))
        ga = R.int(a, b)
        gb = R.int(ga, b)
        if wild:
            ga, gb = pos(), pos()
        sl = closed_slice(R, g) if R.bool(0.6) else rand_slice(R, g)
        size = S.slice_size(sl, rs.leaf_types)
        ins = R.int(0, size) if not wild else R.int(0, size + 2)
        return {"k": k, "from": a, "to": b, "gapFrom": ga, "gapTo": gb, "slice": sl, "insert": ins, "structure": R.bool(0.3)}
    if k in ("addMark", "removeMark"):
        a = pos()
        b = pos() if wild else R.int(a, min(n, a + R.int(0, 10)))
        return {"k": k, "from": a, "to": b, "mark": g.mark(R, R.choice(rs.mark_names))}
    if k in ("addNodeMark", "removeNodeMark"):
        return {"k": k, "pos": pos(), "mark": g.mark(R, R.choice(rs.mark_names))}
    if k == "attr":
        names = sorted({a for s in rs.nodes.values() for a in (s.get("attrs") or {})}) + ["undeclared"]
        return {"k": k, "pos": pos(), "attr": R.choice(names), "value": copy.deepcopy(R.choice(_JSON_VALUES))}
    names = sorted((rs.nodes[rs.top].get("attrs") or {})) + ["undeclared"]
    return {"k": k, "attr": R.choice(names), "value": copy.deepcopy(R.choice(_JSON_VALUES))}


def perturb_step(R: Draw, g: DocGen, d: dict, n: int) -> dict:
    """One field of a (genuine) step changed: plausible but wrong."""
    rs = g.rs
    d = copy.deepcopy(d)
    k = d["k"]
    choices = []
    if k in ("replace", "around", "addMark", "removeMark"):
        choices += ["from", "to"]
    if k == "around":
        choices += ["gapFrom", "gapTo", "insert", "wrapper", "structure", "slice"]
    if k == "replace":
        choices += ["slice", "structure"]
    if k in ("addNodeMark", "removeNodeMark", "attr"):
        choices += ["pos"]
    if k in ("addMark", "removeMark", "addNodeMark", "removeNodeMark") and rs.mark_names:
        choices += ["mark"]
    if k in ("attr", "docAttr"):
        choices += ["value", "attr"]
    f = R.choice(choices)
    if f in ("from", "to", "gapFrom", "gapTo", "pos"):
        d[f] = max(0, min(n, d[f] + R.choice([-3, -2, -1, 1, 2, 3])))
    elif f == "insert":
        d[f] = max(0, d[f] + R.choice([-1, 1]))
    elif f == "structure":
        d[f] = not d.get("structure", False)
    elif f == "slice":
        d["slice"] = rand_slice(R, g) if R.bool() else closed_slice(R, g)
    elif f == "wrapper":
        # replace a container type inside the wrap slice by another non-leaf type
        conts = [t for t in rs.node_names if not rs.leaf[t] and t != rs.top]

        def swap(children: list, depth: int) -> bool:
            for c in children:
                if c["t"] != "text" and not rs.leaf[c["t"]]:
                    if depth == 0 or not swap(c["c"], depth - 1):
                        nt = R.choice(conts)
                        c["t"] = nt
                        c["a"] = rs.default_attrs("node", nt) or g.attrs(R, "node", nt)
                    return True
            return False

        swap(d["slice"]["c"], R.int(0, 1))
    elif f == "mark":
        d["mark"] = g.mark(R, R.choice(rs.mark_names))
    elif f == "value":
        d["value"] = copy.deepcopy(R.choice(_JSON_VALUES))
    elif f == "attr":
        d["attr"] = "undeclared"
    return d


def clip_step(d: dict, n: int) -> dict:
    """Transplant: clip all positions of a step made for another document into 0..n."""
    d = copy.deepcopy(d)
    for f in ("from", "to", "gapFrom", "gapTo", "pos"):
        if f in d:
            d[f] = max(0, min(n, d[f]))
    return d
