"""Step descriptors (plain data), building library steps from them and reading them back.

{"k":"replace","from","to","slice":{c,os,oe},"structure"}
{"k":"around","from","to","gapFrom","gapTo","slice","insert","structure"}
{"k":"addMark"|"removeMark","from","to","mark":[name,attrs]}
{"k":"addNodeMark"|"removeNodeMark","pos","mark"}
{"k":"attr","pos","attr","value"}     {"k":"docAttr","attr","value"}
"""
from __future__ import annotations

import copy
from typing import Any

from ..draw import Draw
from ..ref import plain as P
from ..ref import rx
from ..ref import splice as S
from ..ref.schema import RefSchema
from .docs import DocGen

EMPTY_SLICE = {"c": [], "os": 0, "oe": 0}
JSON_ID = {
    "replace": "replace",
    "around": "replaceAround",
    "addMark": "addMark",
    "removeMark": "removeMark",
    "addNodeMark": "addNodeMark",
    "removeNodeMark": "removeNodeMark",
    "attr": "attr",
    "docAttr": "docAttr",
}


def build_step(lib: Any, d: dict) -> Any:
    from prosemirror.transform import (
        AddMarkStep,
        AddNodeMarkStep,
        AttrStep,
        RemoveMarkStep,
        RemoveNodeMarkStep,
        ReplaceAroundStep,
        ReplaceStep,
    )
    from prosemirror.transform.doc_attr_step import DocAttrStep

    k = d["k"]
    if k == "replace":
        return ReplaceStep(d["from"], d["to"], P.build_slice(lib, d["slice"]), d.get("structure", False))
    if k == "around":
        return ReplaceAroundStep(
            d["from"], d["to"], d["gapFrom"], d["gapTo"], P.build_slice(lib, d["slice"]), d["insert"], d.get("structure", False)
        )
    if k == "addMark":
        return AddMarkStep(d["from"], d["to"], P.build_mark(lib, d["mark"]))
    if k == "removeMark":
        return RemoveMarkStep(d["from"], d["to"], P.build_mark(lib, d["mark"]))
    if k == "addNodeMark":
        return AddNodeMarkStep(d["pos"], P.build_mark(lib, d["mark"]))
    if k == "removeNodeMark":
        return RemoveNodeMarkStep(d["pos"], P.build_mark(lib, d["mark"]))
    if k == "attr":
        return AttrStep(d["pos"], d["attr"], copy.deepcopy(d["value"]))
    if k == "docAttr":
        return DocAttrStep(d["attr"], copy.deepcopy(d["value"]))
    raise ValueError(k)


def describe_step(step: Any) -> dict:
    """Plain view of a library step (attribute reads only)."""
    n = type(step).__name__
    if n == "ReplaceStep":
        return {"k": "replace", "from": step.from_, "to": step.to, "slice": P.plain_slice(step.slice), "structure": bool(step.structure)}
    if n == "ReplaceAroundStep":
        return {
            "k": "around",
            "from": step.from_,
            "to": step.to,
            "gapFrom": step.gap_from,
            "gapTo": step.gap_to,
            "slice": P.plain_slice(step.slice),
            "insert": step.insert,
            "structure": bool(step.structure),
        }
    if n in ("AddMarkStep", "RemoveMarkStep"):
        return {"k": "addMark" if n == "AddMarkStep" else "removeMark", "from": step.from_, "to": step.to, "mark": P.plain_mark(step.mark)}
    if n in ("AddNodeMarkStep", "RemoveNodeMarkStep"):
        return {"k": "addNodeMark" if n == "AddNodeMarkStep" else "removeNodeMark", "pos": step.pos, "mark": P.plain_mark(step.mark)}
    if n == "AttrStep":
        return {"k": "attr", "pos": step.pos, "attr": step.attr, "value": copy.deepcopy(step.value)}
    if n == "DocAttrStep":
        return {"k": "docAttr", "attr": step.attr, "value": copy.deepcopy(step.value)}
    raise ValueError(n)


def touched_hull(d: dict) -> tuple[int, int] | None:
    """[lo, hi] token-position hull a step touches in the document it applies to (None: whole-document step)."""
    k = d["k"]
    if k in ("replace", "around", "addMark", "removeMark"):
        return (d["from"], d["to"])
    if k in ("addNodeMark", "removeNodeMark", "attr"):
        return (d["pos"], d["pos"] + 1)
    return None


# ------------------------------------------------------------------ random / perturbed steps

_JSON_VALUES = [None, 0, 1, 2, 3.5, "x", "", "\U0001F600", [1, [2]], {"k": [1, {"z": None}]}]


def rand_slice(R: Draw, g: DocGen, size: str = "tiny") -> dict:
    rs = g.rs
    src = g.doc(R, size)
    T = P.tokens_of(src["c"], rs.leaf_types)
    dd = S.depth_table(T)
    deep = [p for p in range(len(dd)) if dd[p] > 0]
    if R.bool(0.04):
        h = hollow_slice(R, rs, src)
        if h is not None:
            return h
    if R.bool(0.06):
        h = retyped_open_slice(R, g, src)
        if h is not None:
            return h
    for _ in range(4):
        a = R.int(0, len(T))
        if deep and R.bool(0.6):
            a = R.choice(deep)
        b = R.int(a, min(len(T), a + R.int(0, 10)))
        if deep and R.bool(0.5):
            later = [p for p in deep if a <= p <= a + 14]
            crossing = [p for p in later if min(dd[a : p + 1]) < min(dd[a], dd[p])]
            if crossing and R.bool(0.8):
                b = R.choice(crossing)
            elif later:
                b = R.choice(later)
        # Node.slice(from, to, include_parents=True) keeps the common ancestors in the slice, open on both sides
        sl = S.ref_slice(T, a, b, include_parents=R.bool(0.15))
        if sl is not None:
            return sl
    return dict(EMPTY_SLICE)


def hollow_slice(R: Draw, rs: RefSchema, doc: dict) -> dict | None:
    """A chain of empty nodes open to (nearly) full depth on both sides: content of positive size whose *slice* size
    is 0 or 1 - what Slice.max_open gives for an empty block (<paragraph>(1,1), <blockquote(paragraph)>(2,2))."""
    import copy

    chain = []
    node = doc
    while True:
        kids = [c for c in node["c"] if c["t"] != "text" and not rs.leaf[c["t"]]]
        if not kids or (chain and R.bool(0.3)):
            break
        node = R.choice(kids)
        chain.append(node)
    chain = chain[R.int(0, max(0, len(chain) - 1)) :]
    if not chain:
        return None
    inner: list = []
    for nd in reversed(chain):
        inner = [P.mk(nd["t"], copy.deepcopy(nd["a"]), inner, copy.deepcopy(nd["m"]))]
    k = len(chain)
    return {"c": inner, "os": k, "oe": k if R.bool(0.7) else k - 1}


def retyped_open_slice(R: Draw, g: DocGen, doc: dict) -> dict | None:
    """ONE node open on both sides (what Node.slice never yields: it takes explicit openness or include_parents) whose
    markup differs from the node it will be joined into: another textblock type, or the same type with other
    attributes.  Joined on both sides, the merged node has to take the document's markup on the left."""
    import copy

    rs = g.rs
    tbs = [t for t in rs.node_names if rs.textblock.get(t) and rs.generatable[t]]
    if not tbs:
        return None
    t = R.choice(tbs)
    text = [P.mk("text", {}, None, g.mark_set(R, t, 0.2), g.text(R))] if "text" in rx.first(rs.content[t]) else []
    node = P.mk(t, g.attrs(R, "node", t), text)
    k = 1
    # optionally nest it in a chain of the source document's containers, open to full depth
    chain = []
    cur = doc
    while R.bool(0.4):
        kids = [c for c in cur["c"] if c["t"] != "text" and not rs.leaf[c["t"]] and not rs.inline_content[c["t"]]]
        if not kids:
            break
        cur = R.choice(kids)
        chain.append(cur)
    for nd in reversed(chain[-2:]):
        if rs.accepts(nd["t"], [node["t"]]):
            node = P.mk(nd["t"], copy.deepcopy(nd["a"]), [node])
            k += 1
        else:
            break
    return {"c": [node], "os": k, "oe": k}


def closed_slice(R: Draw, g: DocGen) -> dict:
    """A closed slice of 1-2 whole nodes of random types."""
    rs = g.rs
    out = []
    pool = [n for n in rs.node_names if n != rs.top]
    for _ in range(R.int(1, 2)):
        t = R.choice(pool)
        # siblings are either all inline or all block (a mixed fragment cannot be the content of any node)
        pool = [n for n in pool if rs.inline[n] == rs.inline[t]]
        out.append(P.mk("text", {}, None, [], g.text(R)) if t == "text" else g.node(R, t, 1, 4))
    from .mutate import normalize_children

    return {"c": normalize_children(out), "os": 0, "oe": 0}


def _marked_nodes(rs: RefSchema, doc: dict) -> list[tuple[int, int, list[str]]]:
    """(absolute start, size, [mark type names]) of every node that carries at least one mark."""
    from ..ref import resolve as RR

    return [(s_, k.size, [m[0] for m in k.p["m"]]) for k, s_, _par, _i, _d in RR.all_nodes(RR.N(doc, rs)) if k.p["m"]]


def random_step(R: Draw, g: DocGen, doc: dict, n: int) -> dict:
    """All fields random but inside the document; ordering violations only when asked via `wild`."""
    rs: RefSchema = g.rs
    k = R.weighted(
        [("replace", 4), ("around", 4), ("addMark", 2), ("removeMark", 2), ("addNodeMark", 2), ("removeNodeMark", 1), ("attr", 2), ("docAttr", 1)]
    )
    if k in ("addMark", "removeMark", "addNodeMark", "removeNodeMark") and not rs.mark_names:
        k = "replace"
    wild = R.bool(0.08)

    def pos() -> int:
        return R.int(0, n)

    if k == "replace":
        a = pos()
        b = pos() if wild else R.int(a, min(n, a + R.int(0, 8)))
        sl = rand_slice(R, g) if R.bool(0.7) else closed_slice(R, g)
        if rs.mark_names and R.bool(0.12):
            # marked text dropped into a textblock that forbids (some of) its marks: the step has to fail cleanly
            from ..ref import marks as rm
            from ..ref import resolve as RR

            spots = [
                (k_, s_)
                for k_, s_, _par, _i, _d in RR.all_nodes(RR.N(doc, rs))
                if rs.textblock.get(k_.t) and any(not rs.allows_mark(k_.t, m) for m in rs.mark_names)
            ]
            if spots:
                k_, s_ = R.choice(spots)
                ms: list = []
                for m in R.shuffle(list(rs.mark_names)):
                    if not rs.allows_mark(k_.t, m) or R.bool(0.3):
                        ms = rm.ref_add(rs, g.mark(R, m), ms)
                a = R.int(s_ + 1, s_ + k_.size - 1)
                b = R.int(a, min(s_ + k_.size - 1, a + 2))
                return {"k": k, "from": a, "to": b, "slice": {"c": [P.mk("text", {}, None, ms, g.text(R))], "os": 0, "oe": 0}, "structure": False}
        if R.bool(0.3):
            # both ends on structural landmarks (across sibling nodes, from a node's start to behind a later child),
            # often a plain deletion: the joined halves have to be valid together
            lm = landmarks(rs, doc)
            a = R.choice(lm)
            later = [x for x in lm if a <= x <= a + 24]
            b = R.choice(later) if later else a
            if R.bool(0.6):
                sl = dict(EMPTY_SLICE)
        return {"k": k, "from": a, "to": b, "slice": sl, "structure": R.bool(0.2)}
    if k == "around" and R.bool(0.2):
        sg = sibling_gap_step(R, g, doc)
        if sg is not None:
            return sg
    if k == "around" and R.bool(0.2):
        ig = inline_gap_step(R, g, doc)
        if ig is not None:
            return ig
    if k == "around":
        a = pos()
        b = R.int(a, min(n, a + R.int(0, 10)))
        ga = R.int(a, b)
        gb = R.int(ga, b)
        if wild:
            ga, gb = pos(), pos()
        sl = closed_slice(R, g) if R.bool(0.6) else rand_slice(R, g)
        size = S.slice_size(sl, rs.leaf_types)
        ins = R.int(0, size) if not wild else R.int(0, size + 2)
        return {"k": k, "from": a, "to": b, "gapFrom": ga, "gapTo": gb, "slice": sl, "insert": ins, "structure": R.bool(0.3)}
    if k in ("addMark", "removeMark", "addNodeMark", "removeNodeMark"):
        mname = R.choice(rs.mark_names)
        marked = _marked_nodes(rs, doc)
        if marked and R.bool(0.6):
            # aim at a node that carries marks, with a mark that interacts with them (same type / exclusion either way)
            start, size, present = R.choice(marked)
            inter = [m for m in rs.mark_names if m in present or any(rs.excludes(m, x) or rs.excludes(x, m) for x in present)]
            if inter and R.bool(0.8):
                mname = R.choice(inter)
            if k in ("addNodeMark", "removeNodeMark"):
                return {"k": k, "pos": start, "mark": g.mark(R, mname)}
            a = R.int(max(0, start - 2), start + size - 1)
            b = R.int(a, min(n, start + size + 2))
            return {"k": k, "from": a, "to": b, "mark": g.mark(R, mname)}
        if k == "addMark" and R.bool(0.3):
            # a range that starts before and ends after a whole inline-content node which forbids the mark
            from ..ref import resolve as RR

            spots = [
                (s_, k_.size, m)
                for k_, s_, _par, _i, _d in RR.all_nodes(RR.N(doc, rs))
                if k_.t != "text" and not rs.leaf[k_.t] and rs.inline_content[k_.t] and k_.size > 2
                for m in rs.mark_names
                if not rs.allows_mark(k_.t, m)
            ]
            if spots:
                s_, z, m = R.choice(spots)
                return {"k": k, "from": max(0, s_ - R.int(0, 3)), "to": min(n, s_ + z + R.int(0, 3)), "mark": g.mark(R, m)}
        if k in ("addMark", "removeMark"):
            a = pos()
            b = pos() if wild else R.int(a, min(n, a + R.int(0, 10)))
            return {"k": k, "from": a, "to": b, "mark": g.mark(R, mname)}
        return {"k": k, "pos": pos(), "mark": g.mark(R, mname)}
    if k == "attr":
        names = sorted({a for s in rs.nodes.values() for a in (s.get("attrs") or {})}) + ["undeclared"]
        return {"k": k, "pos": pos(), "attr": R.choice(names), "value": copy.deepcopy(R.choice(_JSON_VALUES))}
    names = sorted((rs.nodes[rs.top].get("attrs") or {})) + ["undeclared"]
    return {"k": k, "attr": R.choice(names), "value": copy.deepcopy(R.choice(_JSON_VALUES))}


def perturb_step(R: Draw, g: DocGen, d: dict, n: int, force: str | None = None) -> dict:
    """One field of a (genuine) step changed: plausible but wrong."""
    rs = g.rs
    d = copy.deepcopy(d)
    k = d["k"]
    choices = []
    if k in ("replace", "around", "addMark", "removeMark"):
        choices += ["from", "to"]
    if k == "around":
        choices += ["gapFrom", "gapTo", "insert", "wrapper", "structure", "slice"]
    if k == "replace":
        choices += ["slice", "structure"]
    if k in ("addNodeMark", "removeNodeMark", "attr"):
        choices += ["pos"]
    if k in ("addMark", "removeMark", "addNodeMark", "removeNodeMark") and rs.mark_names:
        choices += ["mark"]
    if k in ("attr", "docAttr"):
        choices += ["value", "attr"]
    f = force if force in choices else R.choice(choices)
    if f in ("from", "to", "gapFrom", "gapTo", "pos"):
        d[f] = max(0, min(n, d[f] + R.choice([-3, -2, -1, 1, 2, 3])))
    elif f == "insert":
        d[f] = max(0, d[f] + R.choice([-1, 1]))
    elif f == "structure":
        d[f] = not d.get("structure", False)
    elif f == "slice":
        d["slice"] = rand_slice(R, g) if R.bool() else closed_slice(R, g)
    elif f == "wrapper":
        # replace a container type inside the wrap slice by another non-leaf type
        conts = [t for t in rs.node_names if not rs.leaf[t] and t != rs.top]

        def swap(children: list, depth: int) -> bool:
            for c in children:
                if c["t"] != "text" and not rs.leaf[c["t"]]:
                    if depth == 0 or not swap(c["c"], depth - 1):
                        nt = R.choice(conts)
                        c["t"] = nt
                        c["a"] = rs.default_attrs("node", nt) or g.attrs(R, "node", nt)
                    return True
            return False

        swap(d["slice"]["c"], R.int(0, 1))
    elif f == "mark":
        d["mark"] = g.mark(R, R.choice(rs.mark_names))
    elif f == "value":
        d["value"] = copy.deepcopy(R.choice(_JSON_VALUES))
    elif f == "attr":
        d["attr"] = "undeclared"
    return d


def clip_step(d: dict, n: int) -> dict:
    """Transplant: clip all positions of a step made for another document into 0..n."""
    d = copy.deepcopy(d)
    for f in ("from", "to", "gapFrom", "gapTo", "pos"):
        if f in d:
            d[f] = max(0, min(n, d[f]))
    return d


# ------------------------------------------------------------------ hand-made ReplaceAround shapes a peer could send


def sibling_gap_step(R: Draw, g: DocGen, doc: dict) -> dict | None:
    """An around-step whose gap starts inside one node and ends inside a later sibling at the same depth
    (not a flat range), with from/to at the level of their common parent and an empty or one-wrapper slice."""
    from ..ref import resolve as RR

    rs = g.rs
    rdoc = RR.N(doc, rs)
    by_parent: dict[int, list] = {}
    for k, s_, par, i, d in RR.all_nodes(rdoc):
        if not k.is_leaf and not k.is_text:
            by_parent.setdefault(id(par), []).append((k, s_, i))
    groups = [v for v in by_parent.values() if len(v) >= 2]
    if not groups:
        return None
    sibs = R.choice(groups)
    i = R.int(0, len(sibs) - 2)
    j = R.int(i + 1, len(sibs) - 1)
    (n1, s1, _), (n2, s2, _) = sibs[i], sibs[j]
    gap_from = R.int(s1 + 1, s1 + 1 + n1.content_size)
    gap_to = R.int(s2 + 1, s2 + 1 + n2.content_size)
    one_sided = R.weighted([("no", 5), ("start", 2), ("end", 2)])
    if one_sided == "start":
        gap_to = R.choice([s1 + n1.size, s2, s2 + n2.size])  # ends at the parent's level: open at its start only
    elif one_sided == "end":
        gap_from = R.choice([s1, s1 + n1.size, s2])  # starts at the parent's level: open at its end only
    gap_from, gap_to = min(gap_from, gap_to), max(gap_from, gap_to)
    frm = s1 if R.bool(0.7) else gap_from
    to = s2 + n2.size if R.bool(0.7) else gap_to
    if R.bool(0.5):
        sl = dict(EMPTY_SLICE)
        ins = 0
    else:
        t = R.choice([n1.t, n2.t])
        sl = {"c": [P.mk(t, g.attrs(R, "node", t))], "os": 0, "oe": 0}
        ins = 1
    if one_sided != "no" and R.bool(0.6):
        # the straddled node is cut at the very end (or start) of its content, so that what remains of it is EMPTY, and
        # lands in a wrapper that already has a child and takes the node's type after (before) it
        n_, s_ = (n1, s1) if one_sided == "start" else (n2, s2)
        hosts = [w for w in rs.node_names if not rs.leaf[w] and not rs.inline_content[w] and w != rs.top and rs.generatable.get(w)]
        R.shuffle(hosts)
        for w in hosts:
            first = [c for c in rs.node_names if rs.generatable.get(c) and (rs.accepts(w, [c, n_.t]) if one_sided == "start" else rs.accepts(w, [n_.t, c]))]
            if not first:
                continue
            kid = g.min_node(R.choice(first))
            if one_sided == "start":
                gap_from, gap_to = s_ + 1 + n_.content_size, s_ + n_.size
                frm, to = s_, gap_to
                sl = {"c": [P.mk(w, g.attrs(R, "node", w), [kid])], "os": 0, "oe": 0}
                ins = 1 + P.size_of([kid], rs.leaf_types)
            else:
                gap_from, gap_to = s_, s_ + 1
                frm, to = gap_from, s_ + n_.size
                sl = {"c": [P.mk(w, g.attrs(R, "node", w), [kid])], "os": 0, "oe": 0}
                ins = 1
            break
    return {"k": "around", "from": frm, "to": to, "gapFrom": gap_from, "gapTo": gap_to, "slice": sl, "insert": ins, "structure": R.bool(0.3)}


def inline_gap_step(R: Draw, g: DocGen, doc: dict) -> dict | None:
    """An around-step INSIDE a textblock: a flat stretch of inline content is kept (the gap) while the characters
    around it are replaced by a text slice, the gap landing at an offset inside the slice's text ("xABy" -> "pABq")."""
    from ..ref import resolve as RR

    rs = g.rs
    tbs = [(k_, s_) for k_, s_, _par, _i, _d in RR.all_nodes(RR.N(doc, rs)) if rs.textblock.get(k_.t) and k_.size >= 4 and "text" in rx.first(rs.content[k_.t])]
    if not tbs:
        return None
    k_, s_ = R.choice(tbs)
    lo, hi = s_ + 1, s_ + k_.size - 1
    T = P.tokens_of(doc["c"], rs.leaf_types)
    ok = [p for p in range(lo, hi + 1) if not S.splits_pair_at(T, p)]
    if len(ok) < 2:
        return None
    frm = R.choice(ok[:-1])
    to = R.choice([p for p in ok if p > frm])
    gap_from = R.choice([p for p in ok if frm <= p <= to])
    gap_to = R.choice([p for p in ok if gap_from <= p <= to])
    txt = g.text(R, 0.15) + g.text(R, 0.15)
    from ..ref import u16

    ins = R.int(0, u16.u16len(txt))
    return {
        "k": "around", "from": frm, "to": to, "gapFrom": gap_from, "gapTo": gap_to,
        "slice": {"c": [P.mk("text", {}, None, g.mark_set(R, k_.t, 0.2), txt)], "os": 0, "oe": 0}, "insert": ins, "structure": False,
    }


def sibling_join_step(R: Draw, g: DocGen, doc: dict) -> dict | None:
    """A plain replace (usually a deletion) from inside one node to inside a LATER SIBLING OF THE SAME TYPE, both ends
    on child boundaries of those nodes: the two halves are joined into one node, whose content - a prefix of one valid
    sequence plus a suffix of another - has to be checked as a whole (`paragraph block*` + `paragraph block*`)."""
    from ..ref import resolve as RR

    rs = g.rs
    by_parent: dict[int, list] = {}
    for k_, s_, par, _i, _d in RR.all_nodes(RR.N(doc, rs)):
        if not k_.is_text and not rs.leaf[k_.t] and not rs.inline_content[k_.t]:
            by_parent.setdefault(id(par), []).append((k_, s_))
    pairs = []
    for sibs in by_parent.values():
        for i in range(len(sibs)):
            for j in range(i + 1, len(sibs)):
                if sibs[i][0].t == sibs[j][0].t:
                    pairs.append((sibs[i], sibs[j]))
    if not pairs:
        return None
    (n1, s1), (n2, s2) = R.choice(pairs)

    def child_bounds(k_, s_: int) -> list[int]:  # noqa: ANN001
        out = [s_ + 1]
        q = s_ + 1
        for c in k_.p["c"]:
            q += P.size_of([c], rs.leaf_types)
            out.append(q)
        return out

    a = R.choice(child_bounds(n1, s1))
    b = R.choice(child_bounds(n2, s2))
    sl = dict(EMPTY_SLICE) if R.bool(0.75) else closed_slice(R, g)
    return {"k": "replace", "from": a, "to": b, "slice": sl, "structure": False}


def landmarks(rs: RefSchema, doc: dict) -> list[int]:
    """Structural landmarks of a plain document: before / after every node, start / end of every node's content."""
    from ..ref import resolve as RR

    n = P.size_of(doc["c"], rs.leaf_types)
    out = {0, n}
    for k_, s_, _par, _i, _d in RR.all_nodes(RR.N(doc, rs)):
        out.update((s_, s_ + k_.size))
        if not k_.is_text and not rs.leaf[k_.t]:
            out.update((s_ + 1, s_ + k_.size - 1))
    return sorted(x for x in out if 0 <= x <= n)


def reopen_wrap_step(R: Draw, g: DocGen, doc: dict, d: dict) -> dict | None:
    """Equivalent re-spelling of a closed wrap step (slice <W(..)>(0,0) around a range of blocks) whose range touches
    the start or the end of its parent P: the slice additionally carries a copy of P, open on that side, and the
    replaced range is extended over P's boundary token. The wrappers now sit BELOW the slice's open depth."""
    from ..ref import resolve as RR

    if d["k"] != "around" or d["slice"]["os"] or d["slice"]["oe"] or d["from"] != d["gapFrom"] or d["to"] != d["gapTo"]:
        return None
    rs = g.rs
    rdoc = RR.N(doc, rs)
    try:
        rp_from = RR.RefPos(rs, rdoc, d["from"])
        rp_to = RR.RefPos(rs, rdoc, d["to"])
    except ValueError:
        return None
    if rp_from.depth < 1 or rp_from.depth != rp_to.depth or rp_from.start(rp_from.depth) != rp_to.start(rp_to.depth):
        return None
    par = rp_from.parent.p
    depth = rp_from.depth
    shell = P.mk(par["t"], copy.deepcopy(par["a"]), copy.deepcopy(d["slice"]["c"]), copy.deepcopy(par["m"]))
    n_wrap = d["insert"]
    at_end = d["to"] == rp_to.end(depth)
    at_start = d["from"] == rp_from.start(depth)
    opts = [x for x, ok in (("start", at_end), ("end", at_start)) if ok]
    if not opts:
        return None
    how = R.choice(opts)
    out = copy.deepcopy(d)
    if how == "start":
        # open on the start side: from stays inside P, `to` moves past P's closing token
        out["to"] = d["to"] + 1
        out["slice"] = {"c": [shell], "os": 1, "oe": 0}
        out["insert"] = n_wrap
    else:
        out["from"] = d["from"] - 1
        out["slice"] = {"c": [shell], "os": 0, "oe": 1}
        out["insert"] = n_wrap + 1
    return out
