"""Copy-on-write mutations of plain trees (unchanged subtrees stay the same Python objects),
and building library nodes that share untouched sub-trees by identity."""
from __future__ import annotations

import copy
from typing import Any

from ..draw import Draw
from ..ref import marks as rm
from ..ref.plain import build, build_mark, mk
from ..ref.schema import RefSchema
from .docs import ALPHA_WIDE, DocGen


def normalize_children(kids: list[dict]) -> list[dict]:
    """Merge adjacent equal-marked text, drop empty text (normal form)."""
    out: list[dict] = []
    for c in kids:
        if c["t"] == "text":
            if not c["x"]:
                continue
            if out and out[-1]["t"] == "text" and rm.same_set(out[-1]["m"], c["m"]):
                out[-1] = mk("text", {}, None, out[-1]["m"], out[-1]["x"] + c["x"])
                continue
        out.append(c)
    return out


def paths(p: dict, prefix: tuple = ()) -> list[tuple]:
    out = [prefix]
    for i, c in enumerate(p["c"]):
        out.extend(paths(c, prefix + (i,)))
    return out


def get_at(p: dict, path: tuple) -> dict:
    for i in path:
        p = p["c"][i]
    return p


def replace_at(p: dict, path: tuple, fn) -> dict:  # noqa: ANN001
    """Copy-on-write: fn(node) -> new node or list of nodes (splice) for the node at path."""
    if not path:
        r = fn(p)
        assert isinstance(r, dict)
        return r
    i = path[0]
    kids = list(p["c"])
    if len(path) == 1:
        r = fn(kids[i])
        if isinstance(r, list):
            kids[i : i + 1] = r
        else:
            kids[i] = r
        kids2 = normalize_children(kids)
        if len(kids2) == len(kids) and all(a is b for a, b in zip(kids2, kids)):
            kids2 = kids
    else:
        kids[i] = replace_at(kids[i], path[1:], fn)
        kids2 = kids
    q = dict(p)
    q["c"] = kids2
    return q


def mutate_text(R: Draw, s: str) -> str:
    chars = list(s)
    k = R.weighted([("sub", 4), ("ins", 3), ("del", 3), ("astral", 3)])
    i = R.int(0, len(chars) - 1)
    if k == "sub":
        chars[i] = R.choice("abxyz")
    elif k == "ins":
        chars.insert(R.int(0, len(chars)), R.choice(list("abx") + ALPHA_WIDE))
    elif k == "del":
        del chars[i]
    else:
        # swap to / between astral characters (two of them share a high surrogate)
        chars[i] = R.choice(["\U0001F600", "\U0001F601", "\U0001D4B3"])
    return "".join(chars)


def mutate(R: Draw, g: DocGen, doc: dict, keep_valid: bool = False) -> dict:
    """One local change somewhere in doc; result is in normal form (not necessarily schema-valid)."""
    rs: RefSchema = g.rs
    ps = [p for p in paths(doc) if p]
    if not ps:
        return replace_at(doc, (), lambda n: {**n, "c": [g.min_node(a) for a in (g.completion(rs.content[n["t"]]) or [])]})
    path = R.choice(ps)
    node = get_at(doc, path)
    parent = get_at(doc, path[:-1])
    if node["t"] == "text":
        k = R.weighted([("text", 6), ("marks", 3), ("del", 1)])
    else:
        k = R.weighted([("attrs", 2), ("marks", 2), ("del", 2), ("dup", 2), ("ins", 2)])

    def fn(n: dict) -> Any:
        if k == "text":
            return {**n, "x": mutate_text(R, n["x"])}
        if k == "marks":
            allowed = [m for m in rs.mark_names if rs.allows_mark(parent["t"], m)] or rs.mark_names
            if not allowed:
                return [n, copy.deepcopy(n)]
            m = g.mark(R, R.choice(allowed))
            new = rm.ref_remove(m, n["m"]) if rm.in_set(m, n["m"]) else rm.ref_add(rs, m, n["m"])
            return {**n, "m": new}
        if k == "attrs":
            specs = rs.nodes[n["t"]].get("attrs") or {}
            if not specs:
                return [n, copy.deepcopy(n)]
            a = R.choice(sorted(specs))
            v = g.attr_value(R, a)
            if v is None or v == n["a"].get(a):
                v = "changed"
            return {**n, "a": {**n["a"], a: v}}
        if k == "del":
            return []
        if k == "dup":
            return [n, copy.deepcopy(n)]
        t = R.choice([a for a in rs.node_names if rs.generatable[a] and a != rs.top])
        return [g.min_node(t), n] if R.bool() else [n, g.min_node(t)]

    return replace_at(doc, path, fn)


def build_shared(schema: Any, new: dict, old: dict | None, old_node: Any) -> Any:
    """Build `new`, re-using library node objects of `old_node` for structurally equal sub-trees at the
    same index counted from the start or from the end of the parent (what an edit leaves untouched)."""
    from prosemirror.model import Fragment, Node
    from prosemirror.model.node import TextNode

    if old is not None and (new is old or new == old):
        return old_node
    if new["t"] == "text":
        return build(schema, new)
    kids = []
    n_new = len(new["c"])
    oc = old["c"] if old is not None else []
    on = old_node.content.content if old_node is not None else []
    for i, c in enumerate(new["c"]):
        cand = None
        if i < len(oc) and (oc[i] is c or oc[i] == c):
            cand = i
        else:
            j = len(oc) - (n_new - i)
            if 0 <= j < len(oc) and (oc[j] is c or oc[j] == c):
                cand = j
            elif i < len(oc) and oc[i]["t"] == c["t"]:
                cand = i
        if cand is None:
            kids.append(build(schema, c))
        else:
            kids.append(build_shared(schema, c, oc[cand], on[cand]))
    marks = [build_mark(schema, m) for m in new["m"]]
    _ = TextNode
    return Node(schema.nodes[new["t"]], copy.deepcopy(new["a"]), Fragment(kids) if kids else None, marks)


def shared_count(a_node: Any, b_node: Any) -> int:
    """Number of child node objects (at any depth) of b that are the same object as a node of a."""
    ids = set()

    def collect(n: Any) -> None:
        for c in n.content.content:
            ids.add(id(c))
            collect(c)

    collect(a_node)
    cnt = 0

    def walk(n: Any) -> None:
        nonlocal cnt
        for c in n.content.content:
            if id(c) in ids:
                cnt += 1
            else:
                walk(c)

    walk(b_node)
    return cnt
