"""HTML fragment grammar (import totality) and whitespace-normal documents (export/import round trip)."""
from __future__ import annotations

from ..draw import Draw
from ..ref import plain as P
from ..ref.plain import mk, tokens_of, tree_of

BLOCK = ["p", "div", "h1", "h2", "h3", "h6", "blockquote", "pre", "ul", "ol", "li", "hr", "table", "tbody", "tr", "td", "th"]
INLINE = ["br", "img", "a", "em", "i", "strong", "b", "span", "code"]
UNKNOWN = ["foo", "section", "u", "center"]
IGNORED = ["script", "style", "head", "title", "noscript", "object"]
VOID = {"br", "img", "hr"}
TEXTS = ["a", "b c", " ", "  ", "\n", "\t", " x ", "&amp;", "&lt;b&gt;", "&nbsp;", "\U0001F600", "é", "x\n\ny", "a  b", " lead", "trail "]
STYLES = [
    "font-weight: bold",
    "font-weight:normal",
    "font-style: italic",
    "font-style:italic;font-weight:bold",
    "color: red",
    "font-weight",
    ";;",
    "font-style : italic ; ",
    "background: url(x;y)",
    "",
]


def _attrs(R: Draw, tag: str) -> str:
    out = []
    if tag == "a" and R.bool(0.7):
        out.append(f'href="{R.choice(["x", "http://e.x/?a=1&amp;b=2", ""])}"')
    if tag == "a" and R.bool(0.2):
        out.append('title="t"')
    if tag == "img":
        if R.bool(0.7):
            out.append(f'src="{R.choice(["i.png", ""])}"')
        if R.bool(0.3):
            out.append('alt="al t"')
        if R.bool(0.2):
            out.append('title="ti"')
    if tag == "ol" and R.bool(0.4):
        out.append(f'start="{R.choice(["3", "x", "0"])}"')
    if R.bool(0.2):
        out.append(f'style="{R.choice(STYLES)}"')
    if R.bool(0.05):
        out.append('class="c" data-x="1"')
    return (" " + " ".join(out)) if out else ""


def element(R: Draw, depth: int, budget: list[int]) -> str:
    budget[0] -= 1
    kind = R.weighted([("block", 5), ("inline", 5), ("text", 5), ("unknown", 1), ("ignored", 1), ("comment", 1)])
    if depth <= 0 or budget[0] <= 0 or kind == "text":
        return R.choice(TEXTS)
    if kind == "comment":
        return "<!-- c -->"
    tag = R.choice({"block": BLOCK, "inline": INLINE, "unknown": UNKNOWN, "ignored": IGNORED}[kind])
    if tag in VOID:
        return f"<{tag}{_attrs(R, tag)}>"
    n = R.weighted([(0, 2), (1, 4), (2, 3), (3, 2)])
    # steer towards the children the tag expects, but allow anything
    inner = []
    for _ in range(n):
        if tag in ("ul", "ol") and R.bool(0.7):
            inner.append(f"<li{_attrs(R, 'li')}>{element(R, depth - 1, budget)}</li>")
        elif tag in ("table", "tbody") and R.bool(0.6):
            inner.append(f"<tr><td>{element(R, depth - 1, budget)}</td></tr>")
        elif tag == "pre" and R.bool(0.5):
            inner.append(f"<code>{R.choice(TEXTS)}{R.choice(TEXTS)}</code>")
        else:
            inner.append(element(R, depth - 1, budget))
    body = "".join(inner)
    if R.bool(0.03):
        return f"<{tag}{_attrs(R, tag)}>{body}"  # unclosed
    return f"<{tag}{_attrs(R, tag)}>{body}</{tag}>"


def fragment(R: Draw) -> str:
    budget = [R.int(3, 25)]
    parts = [element(R, R.int(1, 4), budget) for _ in range(R.int(1, 4))]
    return "".join(parts)


# ------------------------------------------------------------------ context HTML (schema-conformant, no fix-ups needed)


def context_fragment(R: Draw, depth: int = 3) -> str:
    """Blocks: p | blockquote(blocks) | ul(li(blocks))."""
    out = []
    for _ in range(R.int(1, 3)):
        k = R.weighted([("p", 5), ("bq", 2 if depth else 0), ("ul", 2 if depth else 0), ("ol", 1 if depth else 0)])
        if k == "p":
            out.append(f"<p>{R.choice(['a', 'b', 'cd'])}</p>")
        elif k == "bq":
            out.append(f"<blockquote>{context_fragment(R, depth - 1)}</blockquote>")
        else:
            tag = "ul" if k == "ul" else "ol"
            items = "".join(f"<li>{context_fragment(R, depth - 1)}</li>" for _ in range(R.int(1, 2)))
            out.append(f"<{tag}>{items}</{tag}>")
    return "".join(out)


# ------------------------------------------------------------------ whitespace-normal documents

SPECIALS = ["<", ">", "&", '"', "'", "&amp;", "<b>"]


def ws_normalize(rs, node: dict) -> dict:  # noqa: ANN001
    """Rewrite the document so that it is in the round-trip domain of the bundled rules."""
    t = node["t"]
    a = dict(node["a"])
    if t == "image":
        a["alt"] = None
    if t == "ordered_list":
        a["order"] = 1
    if t == "doc" and "meta" in a:
        a["meta"] = None
    marks = []
    for m in node["m"]:
        if m[0] == "link":
            marks.append(["link", {**m[1], "title": None}])
        else:
            marks.append(m)
    if t == "text":
        return {**node, "m": marks}
    kids = [ws_normalize(rs, c) for c in node["c"]]
    out = {**node, "a": a, "m": marks, "c": kids}
    if rs.textblock.get(t) and not rs.nodes[t].get("code"):
        toks = tokens_of(kids, rs.leaf_types)
        res: list = []
        for tok in toks:
            if tok[0] == "char":
                u = tok[1]
                if u in (0xA0, 0x09, 0x0A, 0x0D, 0x0C):
                    tok = ("char", ord("x"), tok[2])
                    u = ord("x")
                if u == 0x20:
                    prev = res[-1] if res else None
                    if prev is None or (prev[0] == "char" and prev[1] == 0x20) or (prev[0] == "leaf" and prev[1] == "hard_break"):
                        continue
            elif tok[0] == "leaf" and tok[1] == "hard_break":
                while res and res[-1][0] == "char" and res[-1][1] == 0x20:
                    res.pop()
            res.append(tok)
        while res and res[-1][0] == "char" and res[-1][1] == 0x20:
            res.pop()
        out["c"] = tree_of(res)
    elif rs.nodes[t].get("code"):
        # code blocks keep spaces/newlines; no carriage returns, no marks inside
        new = []
        for c in kids:
            if c["t"] == "text":
                x = c["x"].replace("\r", "").replace(" ", " ")
                if x:
                    new.append({**c, "x": x})
            else:
                new.append(c)
        out["c"] = new
    return out


def sprinkle_specials(R: Draw, rs, node: dict) -> dict:  # noqa: ANN001
    """Put characters that need escaping into some text nodes and attribute values."""
    if node["t"] == "text":
        if R.bool(0.25):
            i = R.int(0, len(node["x"]))
            return {**node, "x": node["x"][:i] + R.choice(SPECIALS) + node["x"][i:]}
        return node
    a = dict(node["a"])
    if node["t"] == "image" and R.bool(0.3):
        a["src"] = a["src"] + R.choice(SPECIALS)
        a["title"] = R.choice([None, 'q"t', "a&b"])
    if node["t"] == "image" and R.bool(0.1):
        # empty strings are values, not "unset": src="" / title="" must survive export and import
        if R.bool():
            a["src"] = ""
        else:
            a["title"] = ""
    marks = []
    for m in node["m"]:
        if m[0] == "link" and R.bool(0.1):
            marks.append(["link", {**m[1], "href": ""}])
        elif m[0] == "link" and R.bool(0.3):
            marks.append(["link", {**m[1], "href": m[1]["href"] + R.choice(SPECIALS)}])
        else:
            marks.append(m)
    return {**node, "a": a, "m": marks, "c": [sprinkle_specials(R, rs, c) for c in node["c"]]}


def code_text(R: Draw) -> str:
    return "".join(R.choice(["a", "b", " ", "  ", "\n", "x", "\n\n", " \n"]) for _ in range(R.int(1, 5)))


def add_code_whitespace(R: Draw, rs, node: dict) -> dict:  # noqa: ANN001
    if rs.nodes.get(node["t"], {}).get("code") and R.bool(0.6):
        return {**node, "c": [mk("text", {}, None, [], code_text(R))]}
    return {**node, "c": [add_code_whitespace(R, rs, c) for c in node["c"]]}


_ = P


def lead_spaces(R: Draw, rs, node: dict) -> dict:  # noqa: ANN001
    """In some textblocks make every marked run after the first carry its own LEADING space
    ("one", em(" two"), strong(" three")) - the shape in which each boundary space belongs to the run on its right."""
    if rs.textblock.get(node["t"]) and not rs.nodes[node["t"]].get("code"):
        kids = node["c"]
        plain_marks = [m for m in rs.mark_names if not rs.marks[m].get("attrs") and rs.allows_mark(node["t"], m)]
        texts = [i for i, c in enumerate(kids) if c["t"] == "text"]
        if texts and len(plain_marks) >= 2 and R.bool(0.3):
            # split one text child into three runs whose mark sets differ pairwise-adjacently (toggle one mark each)
            from ..ref import marks as rm

            i = R.choice(texts)
            base = kids[i]
            x, y = R.sample(plain_marks, 2)

            def toggle(ms: list, name: str) -> list:
                if any(m[0] == name for m in ms):
                    return [m for m in ms if m[0] != name]
                return rm.sorted_by_rank(rs, [*ms, [name, {}]])

            m2 = toggle(base["m"], x)
            m3 = toggle(m2, y)
            word = base["x"].strip(" ") or "w"
            three = [{**base, "x": word}, {**base, "m": m2, "x": " two"}, {**base, "m": m3, "x": " three"}]
            if R.bool(0.4):
                # a run that is ONLY a space, under marks the next run carries too plus one more that nests inside
                # (<em> <strong>the</strong></em>): the space is the first text inside the outer mark's element
                extra = [n for n in sorted(plain_marks, key=lambda n: -rs.rank[n]) if not any(m[0] == n for m in m2)]
                if extra and m2:
                    m3 = rm.sorted_by_rank(rs, [*m2, [extra[0], {}]])
                    three = [{**base, "x": word}, {**base, "m": m2, "x": " "}, {**base, "m": m3, "x": "three"}]
            kids = kids[:i] + three + kids[i + 1 :]
            node = {**node, "c": kids}
        if len([c for c in kids if c["t"] == "text"]) >= 2 and R.bool(0.5):
            out = []
            for i, c in enumerate(kids):
                if c["t"] == "text" and i > 0 and kids[i - 1]["t"] == "text":
                    x = c["x"].strip(" ")
                    if x:
                        c = {**c, "x": " " + x}
                elif c["t"] == "text":
                    x = c["x"].rstrip(" ")
                    if x:
                        c = {**c, "x": x}
                out.append(c)
            # the previous run must not end with a space (that would be a double space)
            fixed = []
            for i, c in enumerate(out):
                if c["t"] == "text" and i + 1 < len(out) and out[i + 1]["t"] == "text" and out[i + 1]["x"].startswith(" "):
                    x = c["x"].rstrip(" ")
                    c = {**c, "x": x} if x else c
                fixed.append(c)
            return {**node, "c": fixed}
        return node
    return {**node, "c": [lead_spaces(R, rs, c) for c in node["c"]]}
