"""Schema zoo (plain-JSON specs) and the random well-founded schema generator.

A case refers to a schema either by zoo name ("list") or carries the whole spec dict.
`get(schema_ref)` returns (library Schema, RefSchema), cached per process.
"""
from __future__ import annotations

import copy
import json
from typing import Any

from ..draw import Draw
from ..ref import rx
from ..ref.schema import RefSchema, SpecError

# ------------------------------------------------------------------ zoo

_BASIC_NODES = {
    "doc": {"content": "block+"},
    "paragraph": {"content": "inline*", "group": "block"},
    "blockquote": {"content": "block+", "group": "block", "defining": True},
    "horizontal_rule": {"group": "block"},
    "heading": {"attrs": {"level": {"default": 1}}, "content": "inline*", "group": "block", "defining": True},
    "code_block": {"content": "text*", "marks": "", "group": "block", "code": True, "defining": True},
    "text": {"group": "inline"},
    "image": {
        "inline": True,
        "attrs": {"src": {}, "alt": {"default": None}, "title": {"default": None}},
        "group": "inline",
        "draggable": True,
    },
    "hard_break": {"inline": True, "group": "inline", "selectable": False},
}
_BASIC_MARKS = {
    "link": {"attrs": {"href": {}, "title": {"default": None}}, "inclusive": False},
    "em": {},
    "strong": {},
    "code": {},
}


def _list_nodes(item_content: str) -> dict:
    n = copy.deepcopy(_BASIC_NODES)
    n["ordered_list"] = {"attrs": {"order": {"default": 1}}, "content": "list_item+", "group": "block"}
    n["bullet_list"] = {"content": "list_item+", "group": "block"}
    n["list_item"] = {"defining": True, "content": item_content}
    n["doc"] = {"content": "block+", "attrs": {"meta": {"default": None}}}
    return n


def _with(nodes: dict, **extra: dict) -> dict:
    n = copy.deepcopy(nodes)
    for k, v in extra.items():
        n[k] = v
    return n


_LIST = _list_nodes("paragraph block*")

ZOO: dict[str, dict] = {
    # group V: bundled schemas and the hand-written strict / isolating / table-like variants
    "basic": {"nodes": copy.deepcopy(_BASIC_NODES), "marks": copy.deepcopy(_BASIC_MARKS)},
    "list": {"nodes": copy.deepcopy(_LIST), "marks": copy.deepcopy(_BASIC_MARKS)},
    "strict_list": {
        "nodes": _list_nodes("paragraph (bullet_list | ordered_list)?"),
        "marks": copy.deepcopy(_BASIC_MARKS),
    },
    "heading_body": {
        "nodes": _with(_LIST, doc={"content": "heading body"}, body={"content": "block+"}),
        "marks": copy.deepcopy(_BASIC_MARKS),
    },
    "title": {
        "nodes": _with(_LIST, title={"content": "text*"}, doc={"content": "title? block*"}),
        "marks": copy.deepcopy(_BASIC_MARKS),
    },
    "doc_marks": {
        "nodes": _with(_LIST, doc={"content": "block+", "marks": "_"}),
        "marks": copy.deepcopy(_BASIC_MARKS),
    },
    "iso": {
        "nodes": _with(_LIST, iso={"group": "block", "content": "block+", "isolating": True}),
        "marks": copy.deepcopy(_BASIC_MARKS),
    },
    "table": {
        "nodes": _with(
            _LIST,
            table={"content": "row+", "group": "block"},
            row={"content": "cell+"},
            cell={"content": "block+", "isolating": True},
        ),
        "marks": copy.deepcopy(_BASIC_MARKS),
    },
    "table_strict": {
        "nodes": _with(
            _LIST,
            table={"content": "row+", "group": "block"},
            row={"content": "cell+"},
            cell={"content": "paragraph+", "isolating": True},
        ),
        "marks": copy.deepcopy(_BASIC_MARKS),
    },
    "table_iso": {
        "nodes": _with(
            _LIST,
            table={"content": "row+", "group": "block", "isolating": True},
            row={"content": "cell+"},
            cell={"content": "block+", "isolating": True},
        ),
        "marks": copy.deepcopy(_BASIC_MARKS),
    },
    # group X: other hand-written schemas of the upstream tests
    "fixed": {
        "nodes": {
            "doc": {"content": "block+"},
            "a": {"content": "inline*"},
            "b": {"content": "inline*"},
            "block": {"content": "a b"},
            "text": {"group": "inline"},
        },
        "marks": {},
    },
    "structure": {
        "nodes": {
            "doc": {"content": "head? block* sect* closing?"},
            "para": {"content": "text*", "group": "block"},
            "head": {"content": "text*", "marks": ""},
            "figure": {"content": "caption figureimage", "group": "block"},
            "quote": {"content": "block+", "group": "block"},
            "figureimage": {},
            "caption": {"content": "text*", "marks": ""},
            "sect": {"content": "head block* sect*"},
            "closing": {"content": "text*"},
            "text": {"group": "inline"},
            "fixed": {"content": "head para closing", "group": "block"},
        },
        "marks": {"em": {}},
    },
    # inline nodes that have content of their own (an inline "chip" holding text) and an atom node that is not a leaf
    # (a figure treated as one unit although it has inline content): both are legal and neither is in the bundled schemas
    "inline_box": {
        "nodes": {
            "doc": {"content": "block+"},
            "paragraph": {"content": "inline*", "group": "block"},
            "figure": {"content": "inline*", "group": "block", "atom": True, "attrs": {"kind": {"default": "fig"}}},
            # inline content that is sensitive to ORDER (an optional image may only come first)
            "lead": {"content": "image? text*", "group": "block"},
            "blockquote": {"content": "block+", "group": "block"},
            "chip": {"content": "text*", "inline": True, "group": "inline", "attrs": {"id": {"default": None}}},
            "image": {"inline": True, "group": "inline", "attrs": {"src": {}, "alt": {"default": None}, "title": {"default": None}}},
            "text": {"group": "inline"},
        },
        "marks": {"em": {}, "strong": {}, "link": {"attrs": {"href": {}, "title": {"default": None}}, "inclusive": False}},
    },
    # mark variants (C13/C14 and the "every schema" clauses)
    "comment": {
        "nodes": copy.deepcopy(_LIST),
        "marks": {**copy.deepcopy(_BASIC_MARKS), "comment": {"excludes": "", "attrs": {"id": {}}}},
    },
    "big_small": {
        "nodes": copy.deepcopy(_LIST),
        "marks": {"small1": {}, "big": {"excludes": "small1 small2"}, "em": {}, "small2": {}},
    },
    # asymmetric chain: hi excludes note, lock excludes hi (but not the other way round); note and lock coexist
    "asym_chain": {
        "nodes": copy.deepcopy(_LIST),
        "marks": {
            "note": {},
            "lock": {"excludes": "hi"},
            "hi": {"excludes": "note"},
            "em": {},
            "link": {"attrs": {"href": {}, "title": {"default": None}}, "inclusive": False},
        },
    },
    # several non-inclusive mark types that coexist on one node (two of one type included): what `marks()` at a
    # boundary has to drop one by one
    "non_inclusive": {
        "nodes": copy.deepcopy(_LIST),
        "marks": {
            "em": {},
            "link": {"attrs": {"href": {}, "title": {"default": None}}, "inclusive": False},
            "tag": {"excludes": "", "inclusive": False, "attrs": {"id": {}}},
            "code": {"inclusive": False},
            "strong": {},
        },
    },
    # node types that allow a PROPER, non-empty subset of the marks (by names and by a group): what is allowed has to
    # be filtered mark by mark
    "restricted_marks": {
        "nodes": {
            **copy.deepcopy(_LIST),
            "title": {"content": "inline*", "group": "block", "marks": "strong link"},
            "caption": {"content": "text*", "group": "block", "marks": "fmt"},
        },
        "marks": {
            "em": {"group": "fmt"},
            "link": {"attrs": {"href": {}, "title": {"default": None}}, "inclusive": False},
            "strong": {"group": "fmt"},
            "code": {},
        },
    },
    "remark_user": {
        "nodes": copy.deepcopy(_LIST),
        "marks": {
            "em": {"group": "fmt"},
            "remark": {"excludes": "_", "inclusive": False, "attrs": {"user": {"default": "u"}}},
            "strong": {"group": "fmt"},
            "plain": {"excludes": "fmt"},
        },
    },
}

GROUP_V = [
    "basic",
    "list",
    "strict_list",
    "heading_body",
    "title",
    "doc_marks",
    "iso",
    "table",
    "table_strict",
    "table_iso",
]
GROUP_X = ["fixed", "structure", "inline_box"]
MARK_VARIANTS = ["comment", "big_small", "remark_user", "asym_chain", "non_inclusive", "restricted_marks"]
ISOLATING = ["iso", "table", "table_strict", "table_iso"]
INLINE_BOX = ["inline_box"]

_cache: dict[str, tuple[Any, RefSchema]] = {}
rx.on_reset(_cache.clear)


def spec_of(ref: Any) -> dict:
    if isinstance(ref, str):
        return ZOO[ref]
    return ref


def get(ref: Any) -> tuple[Any, RefSchema]:
    """(library Schema, RefSchema) for a zoo name or a spec dict."""
    key = ref if isinstance(ref, str) else json.dumps(ref, sort_keys=False)
    hit = _cache.get(key)
    if hit is None:
        from prosemirror.model import Schema

        spec = copy.deepcopy(spec_of(ref))
        rs = RefSchema(copy.deepcopy(spec))
        hit = (Schema(spec), rs)
        if len(_cache) > 300:
            _cache.clear()
        _cache[key] = hit
    return hit


# ------------------------------------------------------------------ random well-founded schemas

_ATTR_DEFAULTS = [None, 0, 1, "x", "", [1, 2], {"k": [1]}]  # no True/False: Python says True == 1, JSON does not


def _rand_attrs(R: Draw, allow_required: bool) -> dict:
    out = {}
    for i in range(R.weighted([(0, 6), (1, 3), (2, 1)])):
        name = ["k", "lvl", "ref"][i]
        if allow_required and R.bool(0.25):
            out[name] = {}
        else:
            out[name] = {"default": copy.deepcopy(R.choice(_ATTR_DEFAULTS))}
    return out


def _rand_expr(R: Draw, names: list[str], depth: int = 0) -> str:
    """A content-expression string over `names` (all inline or all block)."""
    k = R.weighted([("name", 6), ("seq", 3 if depth < 2 else 0), ("alt", 2 if depth < 2 else 0)])
    if k == "name":
        e = R.choice(names)
    elif k == "seq":
        e = " ".join(_rand_expr(R, names, depth + 1) for _ in range(R.int(2, 3)))
        if depth:
            e = f"({e})"
    else:
        e = " | ".join(_rand_expr(R, names, depth + 1) for _ in range(R.int(2, 3)))
        e = f"({e})"
    post = R.weighted([("", 4), ("*", 4), ("+", 3), ("?", 2), ("{2}", 1), ("{1,2}", 1), ("{1,}", 1), ("{0,2}", 1)])
    return e + post


def random_spec(R: Draw) -> dict:
    """Layered construction: inline leaves, textblocks, block leaf, containers, doc."""
    nodes: dict[str, dict] = {}
    marks: dict[str, dict] = {}
    # marks
    n_marks = R.weighted([(0, 1), (1, 2), (2, 3), (3, 3), (4, 2), (5, 1)])
    mnames = ["m0", "m1", "m2", "m3", "m4"][:n_marks]
    mgroups = ["ga", "gb"]
    for m in mnames:
        s: dict[str, Any] = {}
        if R.bool(0.3):
            s["group"] = " ".join(R.sample(mgroups, R.int(1, 2)))
        if R.bool(0.3):
            s["attrs"] = {"id": ({} if R.bool(0.5) else {"default": R.choice([None, 1, "a"])})}
        if R.bool(0.25):
            s["inclusive"] = False
        marks[m] = s
    used_groups = sorted({g for s in marks.values() for g in s.get("group", "").split(" ") if g})
    for m in mnames:
        k = R.weighted([("absent", 4), ("empty", 2), ("all", 1), ("names", 3)])
        if k == "empty":
            marks[m]["excludes"] = ""
        elif k == "all":
            marks[m]["excludes"] = "_"
        elif k == "names":
            pool = mnames + used_groups
            marks[m]["excludes"] = " ".join(R.sample(pool, R.int(1, min(3, len(pool)))))

    def mark_spec() -> str | None:
        k = R.weighted([("default", 5), ("all", 1), ("none", 2), ("names", 2 if mnames else 0)])
        if k == "default":
            return None
        if k == "all":
            return "_"
        if k == "none":
            return ""
        pool = mnames + used_groups
        return " ".join(R.sample(pool, R.int(1, min(2, len(pool)))))

    # inline layer
    inline_names = ["text"]
    n_inl = R.weighted([(0, 3), (1, 4), (2, 2)])
    inl_specs = {}
    for i in range(n_inl):
        nm = ["ileaf", "iatom"][i]
        sp: dict[str, Any] = {"inline": True, "group": "inline"}
        a = _rand_attrs(R, allow_required=(i == 1))
        if a:
            sp["attrs"] = a
        inl_specs[nm] = sp
        inline_names.append(nm)
    # textblocks
    tb_names = []
    n_tb = R.int(1, 3)
    tb_specs = {}
    for i in range(n_tb):
        nm = ["para", "head", "code"][i]
        kind = R.weighted([("inline*", 5), ("text*", 2), ("expr", 3)])
        if kind == "expr":
            content = _rand_expr(R, inline_names + (["inline"] if True else []))
        else:
            content = kind
        sp = {"content": content}
        if R.bool(0.8) or i == 0:
            sp["group"] = "block" if R.bool(0.8) or i == 0 else "block other"
        ms = mark_spec()
        if ms is not None:
            sp["marks"] = ms
        if i and R.bool(0.3):
            a = _rand_attrs(R, allow_required=False)
            if a:
                sp["attrs"] = a
        if R.bool(0.2):
            sp["defining"] = True
        if nm == "code" and R.bool(0.5):
            sp["code"] = True
        tb_specs[nm] = sp
        tb_names.append(nm)
    # block leaf
    bl_specs = {}
    if R.bool(0.4):
        sp = {"group": "block"}
        if R.bool(0.3):
            sp["attrs"] = _rand_attrs(R, allow_required=True) or {"k": {"default": 1}}
        bl_specs["rule"] = sp
    # containers
    block_names = [n for n, s in {**tb_specs, **bl_specs}.items()]
    cont_specs = {}
    n_c = R.int(0, 3)
    cnames = ["box", "wrap", "sect"][:n_c]
    for i, nm in enumerate(cnames):
        pool = block_names + ["block"] + cnames[: i + 1]
        content = _rand_expr(R, pool)
        sp = {"content": content}
        if R.bool(0.7):
            sp["group"] = "block"
        if R.bool(0.2):
            sp["isolating"] = True
        if R.bool(0.2):
            sp["defining"] = True
        if R.bool(0.15):
            sp["marks"] = "_"
        if R.bool(0.2):
            a = _rand_attrs(R, allow_required=False)
            if a:
                sp["attrs"] = a
        cont_specs[nm] = sp
    doc_pool = block_names + ["block"] + cnames
    doc_spec: dict[str, Any] = {"content": R.weighted([("block+", 5), ("block*", 2), (_rand_expr(R, doc_pool), 4)])}
    if R.bool(0.2):
        doc_spec["attrs"] = {"meta": {"default": None}}
    if R.bool(0.1):
        doc_spec["marks"] = "_"
    # order: doc first (as the bundled schemas), then a shuffled mix so group order varies
    nodes["doc"] = doc_spec
    rest = {**tb_specs, **bl_specs, **cont_specs, **inl_specs, "text": {"group": "inline"}}
    for nm in R.shuffle(list(rest)):
        nodes[nm] = rest[nm]
    return {"nodes": nodes, "marks": marks}


def well_founded(rs: RefSchema) -> bool:
    """Every node type has a finite minimal valid instance reachable with generatable fillers,
    and `block`/`inline` group resolution did not fail. Decided on the reference only."""
    # min-size fixpoint over types
    INF = 10**9
    size = {n: (1 if rs.leaf[n] else INF) for n in rs.nodes}
    changed = True
    while changed:
        changed = False
        for n in rs.nodes:
            if rs.leaf[n]:
                continue
            best = _min_fill(rs, rs.content[n], size)
            if best is not None and best + 2 < size[n]:
                size[n] = best + 2
                changed = True
    if not all(size[n] < INF for n in rs.nodes):
        return False
    # every node that can be opened can be closed: every reachable live state of every content expression
    # has a completion made of generatable nodes (the fitter and fill_before rely on it; upstream's
    # dead-end check only looks one step ahead)
    for n in rs.nodes:
        for st in rx.states(rs.content[n], limit=400):
            if _min_fill(rs, st, size) is None:
                return False
    return True


def _min_fill(rs: RefSchema, r: tuple, size: dict[str, int]) -> int | None:
    """Min total size of a generatable sequence accepted from state r (Dijkstra over derivative states)."""
    import heapq

    INF = 10**9
    dist = {r: 0}
    heap = [(0, 0, r)]
    cnt = 0
    while heap:
        d, _, st = heapq.heappop(heap)
        if d > dist.get(st, INF):
            continue
        if rx.nullable(st):
            return d
        for a in sorted(rx.first(st)):
            if not rs.generatable[a] or size[a] >= INF:
                continue
            nx = rx.deriv(st, a)
            nd = d + size[a]
            if nd < dist.get(nx, INF):
                dist[nx] = nd
                cnt += 1
                heapq.heappush(heap, (nd, cnt, nx))
    return None


def default_choice_terminates(lib: Any, rs: RefSchema) -> bool:
    """Upstream documents that default instances follow the first type of an expression / first member of a
    group and that a schema whose first choice needs itself overflows the stack. Such schemas are outside
    'well-founded'. The library's own default choice is consulted here for *steering only* (which random
    schemas are used), never for a verdict."""
    import gc
    import sys

    old = sys.getrecursionlimit()
    sys.setrecursionlimit(600)
    # no collection while the probe may be at the bottom of the stack: Hypothesis' gc callback would overflow there
    # and Python would print "Exception ignored in ... gc_callback" for it (noise on stderr, not a result)
    gc_was = gc.isenabled()
    gc.disable()
    try:
        for t in rs.node_names:
            if rs.generatable[t]:
                try:
                    if lib.nodes[t].create_and_fill() is None:
                        return False
                except Exception:  # noqa: BLE001
                    return False
        return True
    finally:
        sys.setrecursionlimit(old)
        if gc_was:
            gc.enable()


def random_schema(R: Draw, tries: int = 6) -> dict | None:
    """A random spec that both the reference and the library accept and that is well-founded."""
    from prosemirror.model import Schema

    for _ in range(tries):
        spec = random_spec(R)
        try:
            rs = RefSchema(copy.deepcopy(spec))
        except SpecError:
            continue
        if not well_founded(rs):
            continue
        try:
            lib = Schema(copy.deepcopy(spec))
        except Exception:  # noqa: BLE001, S112  agreement on rejection is C06's job
            continue
        if not default_choice_terminates(lib, rs):
            continue
        return spec
    return None


def twin_spec(R: Draw, spec: dict) -> dict | None:
    """A second schema with the SAME node and mark names in the same order whose groups differ (one node leaves a
    group, or joins one): identical content-expression texts then denote different sets of node types.  Used to build
    two schemas in one process - what an expression means belongs to the schema, not to its text."""
    from prosemirror.model import Schema

    nodes = spec["nodes"]
    groups = sorted({gname for sp in nodes.values() for gname in (sp.get("group") or "").split() if gname})
    if not groups:
        return None
    for _ in range(6):
        twin = {"nodes": {k: dict(v) for k, v in nodes.items()}, "marks": copy.deepcopy(spec.get("marks") or {})}
        name = R.choice([n for n in nodes if n != "text"])
        toks = (twin["nodes"][name].get("group") or "").split()
        if toks and R.bool(0.6):
            toks.remove(R.choice(toks))
        else:
            gname = R.choice(groups)
            if gname in toks:
                continue
            toks.append(gname)
        if toks:
            twin["nodes"][name]["group"] = " ".join(toks)
        else:
            twin["nodes"][name].pop("group", None)
        try:
            rs = RefSchema(copy.deepcopy(twin))
        except SpecError:
            continue
        if not well_founded(rs):
            continue
        try:
            lib = Schema(copy.deepcopy(twin))
        except Exception:  # noqa: BLE001, S112
            continue
        if default_choice_terminates(lib, rs):
            return twin
    return None


def pick_schema(R: Draw, names: list[str], p_random: float = 0.0) -> Any:
    if p_random and R.bool(p_random):
        spec = random_schema(R)
        if spec is not None:
            return spec
    return R.choice(names)


_wf: dict[str, bool] = {}


def in_domain(ref: Any) -> bool:
    """Zoo schemas are in the domain by definition; a spec dict must be well-founded by the current definition
    (matters when replaying stored cases made under an older, weaker definition)."""
    if isinstance(ref, str):
        return True
    key = json.dumps(ref, sort_keys=False)
    if key not in _wf:
        if len(_wf) > 500:
            _wf.clear()
        _lib, rs = get(ref)
        _wf[key] = well_founded(rs)
    return _wf[key]
