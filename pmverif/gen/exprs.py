"""Content-expression syntax trees: exhaustive enumeration by size, random generation, rendering.

AST: ("n", name) | ("p", sub, postfix) | ("s", a, b) | ("a", a, b)
"""
from __future__ import annotations

import functools
from typing import Iterator

from ..draw import Draw

POSTFIX_FULL = ["?", "*", "+", "{2}", "{0,1}", "{1,2}", "{1,}", "{0}", "{2,3}", "{0,}"]
POSTFIX_SMALL = ["?", "*", "+", "{2}", "{1,2}"]


@functools.lru_cache(maxsize=None)
def _by_size(size: int, names: tuple, postfix: tuple) -> tuple:
    if size == 0:
        return tuple(("n", n) for n in names)
    out = []
    for sub in _by_size(size - 1, names, postfix):
        for p in postfix:
            out.append(("p", sub, p))
    for left in range(size):
        right = size - 1 - left
        for a in _by_size(left, names, postfix):
            for b in _by_size(right, names, postfix):
                out.append(("s", a, b))
                out.append(("a", a, b))
    return tuple(out)


def count_by_size(size: int, names: tuple, postfix: tuple) -> int:
    return len(_by_size(size, names, postfix))


def enumerate_size(size: int, names: tuple, postfix: tuple) -> Iterator[tuple]:
    return iter(_by_size(size, names, postfix))


def render(e: tuple, R: Draw | None = None) -> str:
    """Minimal parentheses; with a Draw, sprinkle redundant parentheses and whitespace."""

    def extra(s: str) -> str:
        if R is not None and R.bool(0.15):
            return f"({s})"
        return s

    def sp() -> str:
        if R is not None and R.bool(0.2):
            return "  "
        return " "

    k = e[0]
    if k == "n":
        return extra(e[1])
    if k == "p":
        sub = render(e[1], R)
        if e[1][0] in ("s", "a"):
            sub = f"({sub})"
        post = e[2]
        if R is not None and R.bool(0.2) and post.startswith("{"):
            post = post.replace("{", "{ ").replace(",", " , ").replace("}", " }")
        return extra(sub + post)
    if k == "s":
        a = render(e[1], R)
        b = render(e[2], R)
        if e[1][0] == "a":
            a = f"({a})"
        if e[2][0] == "a":
            b = f"({b})"
        return extra(a + sp() + b)
    a = render(e[1], R)
    b = render(e[2], R)
    return extra(a + sp() + "|" + sp() + b)


def random_ast(R: Draw, names: list[str], size: int, postfix: list[str] | None = None) -> tuple:
    postfix = postfix or POSTFIX_FULL
    if size <= 0:
        return ("n", R.choice(names))
    k = R.weighted([("p", 4), ("s", 4), ("a", 3)])
    if k == "p":
        post = R.choice(postfix)
        if R.bool(0.3):
            # arbitrary small braced range
            lo = R.int(0, 3)
            post = R.choice(["{%d}" % lo, "{%d,}" % lo, "{%d,%d}" % (lo, R.int(lo, lo + 3))])
        return ("p", random_ast(R, names, size - 1, postfix), post)
    left = R.int(0, size - 1)
    return (k, random_ast(R, names, left, postfix), random_ast(R, names, size - 1 - left, postfix))


def uses_range(e: tuple) -> bool:
    if e[0] == "n":
        return False
    if e[0] == "p":
        return e[2].startswith("{") or uses_range(e[1])
    return uses_range(e[1]) or uses_range(e[2])


def nesting(e: tuple) -> int:
    if e[0] == "n":
        return 0
    if e[0] == "p":
        return (1 if e[1][0] != "n" else 0) + nesting(e[1])
    return max(nesting(e[1]), nesting(e[2]))


def expansion(expr: str) -> int:
    """Size estimate of the automaton the expression unfolds to: leaves count 1, sequences and choices add, a braced
    range multiplies by its largest count (open ranges by min+1).  Nested counted groups multiply - `((a{2,3}){2,3}){2}`
    is 18 copies of `a` - and that, not the length of the text, is what makes compilation slow."""
    import re

    toks = re.findall(r"\{[^}]*\}|[()|?*+]|[A-Za-z_][A-Za-z0-9_]*", expr)
    i = 0

    def p_expr() -> int:
        nonlocal i
        n = p_seq()
        while i < len(toks) and toks[i] == "|":
            i += 1
            n += p_seq()
        return n

    def p_seq() -> int:
        nonlocal i
        n = 0
        while i < len(toks) and toks[i] not in ("|", ")"):
            n += p_sub()
        return max(n, 1)

    def p_sub() -> int:
        nonlocal i
        if toks[i] == "(":
            i += 1
            n = p_expr()
            if i < len(toks) and toks[i] == ")":
                i += 1
        else:
            i += 1
            n = 1
        while i < len(toks) and (toks[i] in ("?", "*", "+") or toks[i].startswith("{")):
            t = toks[i]
            i += 1
            if t.startswith("{"):
                nums = [int(x) for x in re.findall(r"\d+", t)]
                if not nums:
                    continue
                k = nums[-1] if not t.rstrip("} ").endswith(",") else nums[0] + 1
                n *= max(k, 1)
            else:
                n += 1
        return n

    try:
        return p_expr()
    except (IndexError, ValueError):
        return 1
