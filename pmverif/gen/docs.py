"""Document generation by random walks over the *reference* automaton of each content expression.

Produces plain trees (ref.plain format) that are valid by construction under the RefSchema:
child sequences are accepted by the reference regex, marks are canonical (folded through ref_add)
and allowed by the parent, adjacent equal-marked text is merged (normal form).
"""
from __future__ import annotations

import copy
from typing import Any

from ..draw import Draw
from ..ref import marks as rm
from ..ref import rx
from ..ref.plain import mk
from ..ref.schema import RefSchema

ALPHA_ASCII = "ab c"
ALPHA_WIDE = ["é", " ", "\U0001F600", "\U0001D4B3", "\U0001F601"]

_ATTR_VALUES: dict[str, list] = {
    "level": [1, 2, 3],
    "order": [1, 2, 5],
    "src": ["i.png", "j.png"],
    "alt": [None, "alt"],
    "title": [None, "t"],
    "href": ["x", "y", "z"],
    "meta": [None, 1, 2],
    "id": [1, 2, 3],
    "user": ["u", "v"],
}
_GENERIC_VALUES = [1, 2, "a", "b"]

INF = 10**9


class DocGen:
    def __init__(self, rs: RefSchema) -> None:
        self.rs = rs
        self._min_size: dict[str, int] = {}
        self._completion: dict[tuple, list[str] | None] = {}
        self._compute_min_sizes()

    # ---- minimal instances
    def _compute_min_sizes(self) -> None:
        rs = self.rs
        size = {n: (1 if rs.leaf[n] else INF) for n in rs.nodes}
        changed = True
        while changed:
            changed = False
            for n in rs.nodes:
                if rs.leaf[n]:
                    continue
                seq = self._shortest(rs.content[n], size)
                if seq is not None:
                    s = 2 + sum(size[a] for a in seq)
                    if s < size[n]:
                        size[n] = s
                        changed = True
        self._min_size = size

    def _shortest(self, r: tuple, size: dict[str, int]) -> list[str] | None:
        import heapq

        rs = self.rs
        dist: dict[tuple, int] = {r: 0}
        back: dict[tuple, tuple[tuple, str] | None] = {r: None}
        heap = [(0, 0, r)]
        cnt = 0
        while heap:
            d, _, st = heapq.heappop(heap)
            if d > dist.get(st, INF):
                continue
            if rx.nullable(st):
                out = []
                cur = st
                while back[cur] is not None:
                    prev, a = back[cur]  # type: ignore[misc]
                    out.append(a)
                    cur = prev
                return list(reversed(out))
            for a in sorted(rx.first(st)):
                if not rs.generatable[a] or size[a] >= INF:
                    continue
                nx = rx.deriv(st, a)
                nd = d + size[a]
                if nd < dist.get(nx, INF):
                    dist[nx] = nd
                    back[nx] = (st, a)
                    cnt += 1
                    heapq.heappush(heap, (nd, cnt, nx))
        return None

    def completion(self, st: tuple) -> list[str] | None:
        """Cheapest sequence of generatable types leading from st to a nullable state."""
        if st not in self._completion:
            self._completion[st] = self._shortest(st, self._min_size)
        return self._completion[st]

    def completion_any(self, st: tuple) -> list[str]:
        """Fewest-symbols path from st to a nullable state over ALL types."""
        from collections import deque

        back: dict = {st: None}
        dq = deque([st])
        while dq:
            cur = dq.popleft()
            if rx.nullable(cur):
                out = []
                while back[cur] is not None:
                    prev, a = back[cur]
                    out.append(a)
                    cur = prev
                return list(reversed(out))
            for a in sorted(rx.first(cur)):
                nx = rx.deriv(cur, a)
                if nx not in back:
                    back[nx] = (cur, a)
                    dq.append(nx)
        raise AssertionError("state with empty language")

    def min_node(self, t: str) -> dict:
        rs = self.rs
        attrs = rs.default_attrs("node", t)
        assert attrs is not None, f"{t} not generatable"
        if rs.leaf[t]:
            return mk(t, attrs)
        seq = self.completion(rs.content[t])
        assert seq is not None
        return mk(t, attrs, [self.min_node(a) for a in seq])

    # ---- random pieces
    def attr_value(self, R: Draw, name: str) -> Any:
        return copy.deepcopy(R.choice(_ATTR_VALUES.get(name, _GENERIC_VALUES)))

    def attrs(self, R: Draw, kind: str, t: str) -> dict:
        specs = (self.rs.nodes if kind == "node" else self.rs.marks)[t].get("attrs") or {}
        out = {}
        for a, sp in specs.items():
            if "default" not in sp:
                v = self.attr_value(R, a)
                while v is None:
                    v = "z"
                out[a] = v
            elif R.bool(0.3):
                v = self.attr_value(R, a)
                out[a] = copy.deepcopy(sp["default"]) if v is None else v
            else:
                out[a] = copy.deepcopy(sp["default"])
        return out

    def mark(self, R: Draw, name: str) -> list:
        return [name, self.attrs(R, "mark", name)]

    def mark_set(self, R: Draw, parent: str, p_any: float = 0.35) -> list[list]:
        rs = self.rs
        allowed = [m for m in rs.mark_names if rs.allows_mark(parent, m)]
        if not allowed or not R.bool(p_any):
            return []
        cur: list[list] = []
        for _ in range(R.weighted([(1, 5), (2, 3), (3, 2)])):
            cur = rm.ref_add(rs, self.mark(R, R.choice(allowed)), cur)
        return cur

    def text(self, R: Draw, wide: float = 0.25) -> str:
        n = R.weighted([(1, 3), (2, 3), (3, 3), (4, 2), (6, 1)])
        out = []
        for _ in range(n):
            if R.bool(wide):
                out.append(R.choice(ALPHA_WIDE))
            else:
                out.append(R.choice(ALPHA_ASCII))
        return "".join(out)

    # ---- nodes
    def node(self, R: Draw, t: str, depth: int, budget: int, own_marks: list | None = None) -> dict:
        rs = self.rs
        attrs = self.attrs(R, "node", t)
        if rs.leaf[t]:
            return mk(t, attrs, None, own_marks)
        kids = self.children(R, t, rs.content[t], depth, budget)
        return mk(t, attrs, kids, own_marks)

    def children(self, R: Draw, parent: str, state: tuple, depth: int, budget: int, max_kids: int | None = None, p_stop: float = 0.25) -> list[dict]:
        """Random walk from `state` (a derivative of parent's content expression) to a nullable state."""
        rs = self.rs
        kids: list[dict] = []
        state0 = state
        if max_kids is None:
            max_kids = R.weighted([(1, 2), (2, 4), (3, 3), (4, 2), (6, 1)])
        inline_parent = rs.inline_content[parent]
        while True:
            can_stop = rx.nullable(state)
            opts = sorted(rx.first(state))
            if depth <= 0:
                # at the depth bound only leaves / textblocks-with-inline children
                opts2 = [a for a in opts if rs.leaf[a] or rs.inline_content[a]]
                opts = opts2 if opts2 or can_stop else opts
            over = len(kids) >= max_kids or budget <= 0
            if can_stop and (over or not opts or R.bool(p_stop)):
                break
            if over or not opts:
                comp = self.completion(state)
                if comp is not None:
                    for a in comp:
                        kids.append(self.min_node(a))
                    break
                # only reachable through non-generatable types (text / required attrs): shortest path over all types
                for a in self.completion_any(state):
                    if a == "text":
                        child = mk("text", {}, None, [], "a")
                        if kids and kids[-1]["t"] == "text" and not kids[-1]["m"]:
                            kids[-1] = mk("text", {}, None, [], kids[-1]["x"] + "a")
                        else:
                            kids.append(child)
                    else:
                        kids.append(self.node(R, a, 0, 0))
                break
            a = R.choice(opts)
            marks = self.mark_set(R, parent, 0.4 if inline_parent else 0.15)
            if inline_parent and kids and kids[-1]["m"] and R.bool(0.25):
                # neighbour variation: same mark types as the previous inline node, one attribute value changed
                # (adjacent link(x) / link(y)), or one mark dropped
                prev = [list(m) for m in kids[-1]["m"]]
                with_attrs = [i for i, m in enumerate(prev) if m[1]]
                if with_attrs and R.bool(0.7):
                    i = R.choice(with_attrs)
                    prev[i] = self.mark(R, prev[i][0])
                elif len(prev) > 1:
                    del prev[R.int(0, len(prev) - 1)]
                cur: list[list] = []
                for m in prev:
                    if rs.allows_mark(parent, m[0]):
                        cur = rm.ref_add(rs, m, cur)
                marks = cur
            if a == "text":
                child = mk("text", {}, None, marks, self.text(R))
                budget -= 2
                if kids and kids[-1]["t"] == "text" and rm.same_set(kids[-1]["m"], marks):
                    # same markup as the previous text node: this only lengthens that node (no new child)
                    kids[-1] = mk("text", {}, None, kids[-1]["m"], kids[-1]["x"] + child["x"])
                    max_kids -= 1
                    continue
                kids.append(child)
            else:
                child = self.node(R, a, depth - 1, budget // 2, marks)
                kids.append(child)
                budget -= 2 + len(child["c"]) * 2
            state = rx.deriv(state, a)
        if not rx.accepts(state0, [k["t"] for k in kids]):
            # adjacent text nodes with equal marks merge into one child, which can break counted expressions
            # such as "inline+ text": fall back to the minimal generatable filling
            comp = self.completion(state0)
            if comp is None:
                raise AssertionError(f"cannot build valid content for {parent}")
            kids = [self.min_node(a) for a in comp]
        return kids

    def doc(self, R: Draw, size: str = "small") -> dict:
        rs = self.rs
        depth = R.weighted([(2, 3), (3, 4), (4, 2), (5, 1)])
        budget = {"tiny": 8, "small": 24, "medium": 50, "large": 110}[size]
        attrs = self.attrs(R, "node", rs.top)
        top_kids = R.weighted([(1, 1), (2, 4), (3, 4), (4, 2), (5, 1)])
        kids = self.children(R, rs.top, rs.content[rs.top], depth, budget, max_kids=top_kids, p_stop=0.1)
        return mk(rs.top, attrs, kids)


_gens: dict[int, DocGen] = {}
rx.on_reset(_gens.clear)


def docgen(rs: RefSchema) -> DocGen:
    g = _gens.get(id(rs))
    if g is None or g.rs is not rs:
        g = DocGen(rs)
        if len(_gens) > 300:
            _gens.clear()
        _gens[id(rs)] = g
    return g
