"""Named input predicates for known findings (see findings.py)."""
from __future__ import annotations

from .findings import predicate  # noqa: F401


@predicate("c08_mirror_mid_on_shared_boundary")
def _c08_mirror(sub: dict, params: dict) -> bool:
    """Mirror-law sub-case (map, order, pos, assoc): the position, after the first of the two maps, lies on a
    boundary shared by two adjacent ranges of the second map (where the first containing range decides)."""
    from .ref.stepmap import RefMap

    if sub.get("mode") != "mirror":
        return False
    ref = RefMap.from_stored(sub["ranges"], sub["inverted"])
    first = ref if sub["order"] == "M,I" else ref.inverse()
    second = first.inverse()
    mid = first.map(sub["pos"], sub["assoc"])
    tr = second.triples
    return any(a[0] + a[1] == b[0] == mid for a, b in zip(tr, tr[1:]))


@predicate("c08_history_mid_on_shared_boundary")
def _c08_history(sub: dict, params: dict) -> bool:
    """Mirrored history + inversion: somewhere along the way the position sits on a boundary shared by two
    adjacent ranges of the map about to be applied (followed without mirror jumps and with them)."""
    from .ref.stepmap import RefMap, RefMapping

    if sub.get("mode") != "mirror-history":
        return False
    refs = [RefMap.from_stored(r, False) for r in sub["history"]]
    if sub["undo_first"]:
        refs = [r.inverse() for r in reversed(refs)]
    n = len(refs)
    seq = refs + [r.inverse() for r in reversed(refs)]
    mirror = {}
    for j in range(n):
        mirror[j] = 2 * n - 1 - j
        mirror[2 * n - 1 - j] = j

    def on_shared(m: RefMap, pos: int) -> bool:
        tr = m.triples
        return any(a[0] + a[1] == b[0] == pos for a, b in zip(tr, tr[1:]))

    pos = sub["pos"]
    i = 0
    while i < len(seq):
        if on_shared(seq[i], pos):
            return True
        r = seq[i].result(pos, sub["assoc"])
        if r.recover is not None and mirror.get(i, -1) > i:
            corr = mirror[i]
            pos = seq[corr].recover(r.recover)
            i = corr + 1
            continue
        pos = r.pos
        i += 1
    _ = RefMapping
    return False


@predicate("c03_token_at_shared_boundary")
def _c03_shared(sub: dict, params: dict) -> bool:
    """Step-map sub-case: the old token starts at a position where two ranges of the map touch (the first one
    ending where the second starts), so the first containing range decides for both of its edges."""
    from .ref.stepmap import RefMap

    if sub.get("mode") != "step-map":
        return False
    tr = RefMap.from_stored(sub["ranges"], sub["inverted"]).triples
    t = sub["token"]
    return any(a[0] + a[1] == b[0] and b[0] in (t, t + 1) for a, b in zip(tr, tr[1:]))


@predicate("c11_fit_gives_up_with_payload")
def _c11_fit_gives_up(sub: dict, params: dict) -> bool:
    """Call-site identification: the request carries a non-empty payload (it is not a pure deletion) and the
    library's fitting (`replace_step`, reached through the operation) records no step for it - upstream
    documents that fitting may find 'no meaningful way to insert the slice'. Pure deletions never match."""
    if sub.get("mode") != "c11":
        return False
    op = sub["op"]
    if op["op"] in ("delete", "delete_range"):
        return False
    if not (op.get("slice", {}).get("c") or op.get("content") or op.get("node")):
        return False
    from prosemirror.transform import Transform

    from .gen import ops as go
    from .gen import schemas
    from .ref import plain as P

    lib, _rs = schemas.get(sub["schema"])
    tr = Transform(P.build(lib, sub["doc"]))
    o = dict(op)
    if o["op"] == "replace_step":
        o["op"] = "replace"
    try:
        go.apply_op(tr, lib, o)
    except Exception:  # noqa: BLE001
        return False
    return not tr.steps


def lift_remainders(rs, doc_p: dict, a: int, b: int, target: int):  # noqa: ANN001, ANN201
    """Reference simulation of Transform.lift: the before/after remainder parts of every ancestor between the
    range depth and the target. Returns list of (node type, [child types]) or None if there is no block range."""
    from .ref import resolve as RR

    rdoc = RR.N(doc_p, rs)
    ra, rb = RR.RefPos(rs, rdoc, a), RR.RefPos(rs, rdoc, b)
    br = ra.block_range(rb)
    if br is None:
        return None
    depth, _start, _end, start_index, end_index = br
    parts = []
    before_inner = None
    after_inner = None
    splitting_b = splitting_a = False
    for d in range(depth, target, -1):
        node = ra.node(d)
        i0 = start_index if d == depth else ra.index(d)
        i1 = end_index if d == depth else rb.index(d) + 1
        if splitting_b or i0 > 0:
            splitting_b = True
            kids = [k.t for k in node.kids[:i0]] + ([before_inner] if before_inner else [])
            parts.append((node.t, kids))
            before_inner = node.t
        if splitting_a or i1 < len(node.kids):
            splitting_a = True
            kids = ([after_inner] if after_inner else []) + [k.t for k in node.kids[i1:]]
            parts.append((node.t, kids))
            after_inner = node.t
    return parts


@predicate("c12_lift_remainder_invalid")
def _c12_lift(sub: dict, params: dict) -> bool:
    """lift_target approved a lift whose split-off remainder of some ancestor is not valid content for that
    ancestor's type (e.g. list_item(bullet_list(...)) without its leading paragraph)."""
    if sub.get("mode") != "c12" or sub.get("helper") != "lift":
        return False
    from .gen import schemas

    _lib, rs = schemas.get(sub["schema"])
    _tag, a, b, target = sub["args"]
    parts = lift_remainders(rs, sub["doc"], a, b, target)
    if not parts:
        return False
    return any(not rs.accepts(t, kids) for t, kids in parts)


@predicate("c04_add_node_mark_displacement_not_restorable")
def _c04_nodemark(sub: dict, params: dict) -> bool:
    """AddNodeMarkStep whose mark displaces >= 2 marks of the target node, or displaces exactly one mark that does
    not itself exclude the added mark (so adding it back is refused or leaves the new mark in place)."""
    if sub.get("mode") != "c04" or sub.get("step", {}).get("k") != "addNodeMark":
        return False
    from .gen import schemas
    from .ref import marks as rm
    from .ref import resolve as RR

    _lib, rs = schemas.get(sub["schema"])
    step = sub["step"]
    node = RR.node_at(RR.N(sub["doc_before"], rs), step["pos"])
    if node is None:
        return False
    m = step["mark"]
    new = rm.ref_add(rs, m, node["m"])
    displaced = [x for x in node["m"] if not rm.in_set(x, new)]
    if len(displaced) >= 2:
        return True
    return len(displaced) == 1 and not rs.excludes(displaced[0][0], m[0])


@predicate("c04_structure_around_step_inserting_leaves")
def _c04_structure_around(sub: dict, params: dict) -> bool:
    """ReplaceAroundStep flagged structure=True whose slice is more than wrappers around the gap (it inserts text,
    leaf nodes or complete sibling nodes): its inverse has to delete them and carries the same flag, so it
    refuses ('would overwrite content')."""
    if sub.get("mode") != "c04":
        return False
    step = sub.get("step", {})
    if step.get("k") != "around" or not step.get("structure"):
        return False
    from .gen import schemas
    from .ref import plain as P

    _lib, rs = schemas.get(sub["schema"])
    toks = P.tokens_of(step["slice"]["c"], rs.leaf_types)
    inner = toks[step["slice"]["os"] : len(toks) - step["slice"]["oe"]]
    before, after = inner[: step["insert"]], inner[step["insert"] :]
    pure_wrappers = all(t[0] == "open" for t in before) and all(t[0] == "close" for t in after)
    return not pure_wrappers


@predicate("c04_remove_node_mark_same_type_later")
def _c04_same_rank(sub: dict, params: dict) -> bool:
    """RemoveNodeMarkStep of a mark that is followed, in the node's set, by another mark of the same type
    (only possible for types that do not exclude themselves): adding it back appends it after its siblings."""
    if sub.get("mode") != "c04" or sub.get("step", {}).get("k") != "removeNodeMark":
        return False
    from .gen import schemas
    from .ref import marks as rm
    from .ref import resolve as RR

    _lib, rs = schemas.get(sub["schema"])
    step = sub["step"]
    node = RR.node_at(RR.N(sub["doc_before"], rs), step["pos"])
    if node is None:
        return False
    idx = [i for i, m in enumerate(node["m"]) if rm.mark_eq(m, step["mark"])]
    if not idx:
        return False
    return any(m[0] == step["mark"][0] for m in node["m"][idx[0] + 1 :])


def retyped_tail(rs, doc_p: dict, x: dict):  # noqa: ANN001, ANN201
    """For a ReplaceStep descriptor whose slice is open at the end: (to, end) of the outermost ancestor of `to` whose
    type or attributes differ from the slice's node at that level - the tail [to, end) of that ancestor is moved into a
    node of another type although no token of it is replaced.  None if nothing is re-typed."""
    from .ref import resolve as RR

    if x.get("k") != "replace" or not x["slice"]["oe"]:
        return None
    try:
        rp = RR.RefPos(rs, RR.N(doc_p, rs), x["to"])
    except ValueError:
        return None
    oe = x["slice"]["oe"]
    base = rp.depth - oe
    if base < 0:
        return None
    kids = x["slice"]["c"]
    for j in range(oe):
        if not kids:
            return None
        nd = kids[-1]
        doc_nd = rp.node(base + 1 + j).p
        if nd["t"] != doc_nd["t"] or nd["a"] != doc_nd["a"]:
            return (x["to"], rp.end(base + 1 + j))
        kids = nd["c"]
    return None


@predicate("c17_other_step_inside_retyped_tail")
def _c17_retyped(sub: dict, params: dict) -> bool:
    """One step of the pair is a ReplaceStep whose open end re-types the tail of a node (a split with another type
    after it, an open paste ending in another block type) and the other step works inside that tail."""
    if sub.get("mode") != "c17":
        return False
    from .gen import schemas

    _lib, rs = schemas.get(sub["schema"])
    for x, y in ((sub["a"], sub["hull_b"]), (sub["b"], sub["hull_a"])):
        t = retyped_tail(rs, sub["doc"], x)
        if t is not None and t[0] <= y[0] and y[1] <= t[1] + 1:
            return True
    return False


@predicate("c13_add_mark_over_inline_container")
def _c13_container(sub: dict, params: dict) -> bool:
    """add_mark over a range that contains or cuts into an inline node which has content of its own and is not an
    atom, in a parent that allows the mark."""
    if sub.get("mode") != "c13" or sub.get("op", {}).get("op") != "add_mark":
        return False
    from .gen import schemas
    from .ref import resolve as RR

    _lib, rs = schemas.get(sub["schema"])
    op = sub["op"]
    for k, s_, par, _i, _d in RR.all_nodes(RR.N(sub["doc"], rs)):
        if k.is_text or rs.leaf[k.t] or not rs.inline[k.t] or rs.nodes[k.t].get("atom"):
            continue
        # covered by the range, or cut by it (the statement leaves open whether a node the range only cuts into is
        # inside; read as inside, it is the same finding)
        if s_ < op["to"] and s_ + k.size > op["from"] and par is not None and rs.allows_mark(par.t, op["mark"][0]):
            return True
    return False
