"""Named input predicates for known findings (see findings.py)."""
from __future__ import annotations

from .findings import predicate  # noqa: F401
