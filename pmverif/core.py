"""Shared vocabulary of the checks: Violation, Ctx (coverage accounting), call() (exception policy)."""
from __future__ import annotations

import collections
import hashlib
import json
import signal
import traceback
from typing import Any, Callable

from .ref.plain import jkey

# DESIGN.md §1.3 — "reports failure" vs "internal error"
REJECT_TYPES: tuple[type, ...] = (ValueError,)  # ReplaceError, TransformError, UnicodeError, JSONDecodeError


class Violation(Exception):
    def __init__(self, clause: str, msg: str, detail: Any = None) -> None:
        super().__init__(f"[{clause}] {msg}")
        self.clause = clause
        self.msg = msg
        self.detail = detail


class Hang(BaseException):
    """Raised by the interval timer inside a call under test."""


def _on_alarm(signum: int, frame: Any) -> None:  # noqa: ARG001
    raise Hang()


class time_limit:  # noqa: N801
    def __init__(self, seconds: float) -> None:
        self.seconds = seconds

    def __enter__(self) -> None:
        self._old = signal.signal(signal.SIGALRM, _on_alarm)
        # repeating: an alarm that lands inside a GC callback / __del__ is swallowed ("Exception ignored"),
        # so keep firing until the block is left
        signal.setitimer(signal.ITIMER_REAL, self.seconds, 0.05)

    def __exit__(self, *exc: Any) -> None:
        signal.setitimer(signal.ITIMER_REAL, 0)
        signal.signal(signal.SIGALRM, self._old)


CALL_BUDGET_S = 5.0
RETRY_BUDGET_S = 20.0


class Outcome:
    __slots__ = ("kind", "value", "exc")

    def __init__(self, kind: str, value: Any = None, exc: BaseException | None = None) -> None:
        self.kind = kind  # "ok" | "reject"
        self.value = value
        self.exc = exc

    @property
    def ok(self) -> bool:
        return self.kind == "ok"


def call(clause: str, fn: Callable[..., Any], *a: Any, reject: tuple[type, ...] = REJECT_TYPES, **kw: Any) -> Outcome:
    """Run one library call under the exception policy.

    returns Outcome("ok", value) or Outcome("reject", exc=ValueError-family);
    raises Violation(clause+":internal-error") for any other exception type and
    Violation(clause+":hang") when the call exceeds the time budget twice.
    """
    for budget in (CALL_BUDGET_S, RETRY_BUDGET_S):
        try:
            with time_limit(budget):
                return Outcome("ok", fn(*a, **kw))
        except Hang:
            if budget == RETRY_BUDGET_S:
                raise Violation(f"{clause}:hang", f"call did not return within {RETRY_BUDGET_S}s") from None
            continue
        except reject as e:
            return Outcome("reject", exc=e)
        except Exception as e:  # noqa: BLE001
            tb = traceback.extract_tb(e.__traceback__)
            where = ""
            for fr in reversed(tb):
                if "/prosemirror/" in fr.filename:
                    where = f"{fr.filename.split('/prosemirror/', 1)[1]}:{fr.name}"
                    break
            raise Violation(
                f"{clause}:internal-error",
                f"{type(e).__name__}: {e} (at {where})",
                detail={"exc": type(e).__name__, "where": where},
            ) from None
    raise AssertionError("unreachable")


def must(clause: str, fn: Callable[..., Any], *a: Any, **kw: Any) -> Any:
    """A library call that the property says must succeed (no exception of any kind)."""
    o = call(clause, fn, *a, **kw)
    if not o.ok:
        raise Violation(f"{clause}:raised", f"{type(o.exc).__name__}: {o.exc}")
    return o.value


def require(cond: bool, clause: str, msg: str, detail: Any = None) -> None:
    if not cond:
        raise Violation(clause, msg, detail)


def h8(key: Any) -> str:
    return hashlib.blake2b(jkey(key).encode(), digest_size=8).hexdigest()


class Ctx:
    """Per-process coverage accounting for one property run."""

    MAX_SAMPLES = 6

    def __init__(self) -> None:
        self.evaluations = 0
        self.labels: collections.Counter = collections.Counter()
        self.nontrivial_keys: set[str] = set()
        self.samples: list = []
        self.excluded: collections.Counter = collections.Counter()
        self.excluded_examples: dict[str, Any] = {}
        self.notes: collections.Counter = collections.Counter()
        self._cur_nontrivial = False

    def label(self, *names: str) -> None:
        for n in names:
            self.labels[n] += 1

    def nontrivial(self, key: Any) -> None:
        self.nontrivial_keys.add(h8(key))
        self._cur_nontrivial = True

    def begin_case(self) -> None:
        self._cur_nontrivial = False

    def end_case(self, case: Any) -> None:
        if self._cur_nontrivial and len(self.samples) < self.MAX_SAMPLES:
            s = json.dumps(case, default=repr)
            if len(s) < 3000:
                self.samples.append(json.loads(s))

    def dump(self) -> dict:
        return {
            "evaluations": self.evaluations,
            "labels": dict(self.labels),
            "nontrivial_keys": sorted(self.nontrivial_keys),
            "samples": self.samples,
            "excluded": dict(self.excluded),
            "excluded_examples": self.excluded_examples,
        }


def fail_unless_known(ctx: Ctx, prop: str, clause: str, subcase: dict, msg: str) -> None:
    """Sub-case level failure: excluded (and counted) when an open known finding's input predicate holds on
    `subcase`, otherwise a Violation. Lets a check continue past a listed finding inside one generated case."""
    from . import findings  # noqa: PLC0415

    f = findings.match(prop, clause, subcase)
    if f is None:
        raise Violation(clause, msg, detail={"subcase": subcase})
    ctx.excluded[f["id"]] += 1
    ctx.excluded_examples.setdefault(f["id"], {"clause": clause, "msg": msg[:300], "subcase": subcase})
