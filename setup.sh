#!/bin/sh
# setup_cmd: make sure /venv has hypothesis (offline wheelhouse) and the framework imports.
set -e
PY=/venv/bin/python
if ! $PY -c "import hypothesis" 2>/dev/null; then
  PIP_NO_INDEX=1 /venv/bin/pip install --no-index --find-links /opt/veriftools/wheels hypothesis
fi
cd "$(dirname "$0")"
mkdir -p evidence replays
PYTHONHASHSEED=0 $PY -c "import sys; sys.path.insert(0,'.'); import pmverif.env as e; e.bootstrap(); import pmverif.selfcheck as s; s.main()"
